#!/bin/bash
# try_seed.sh <seed name under /verif/seeded> <property> [--only ...]   : apply, check, undo
NAME=$1; shift
cd /repo && git apply /verif/seeded/$NAME/patch.diff || { echo "patch does not apply"; exit 9; }
cd /verif && ./bin/check "$@" > /tmp/try_$NAME.log 2>&1; RC=$?
cd /repo && git checkout -- . 
echo "$NAME: check exit=$RC"; grep -E "VIOLATION|KNOWN|INCONCLUSIVE|exit=" /tmp/try_$NAME.log | cut -c1-220 | head -8
