#!/bin/bash
# try_matrix.sh : lines "SEED PROP [--only ...]" on stdin; prints one line per seed
while read -r NAME REST; do
  [ -z "$NAME" ] && continue
  cd /repo && git apply /verif/seeded/$NAME/patch.diff 2>/dev/null || { echo "$NAME: PATCH DOES NOT APPLY"; cd /repo; git checkout -- .; continue; }
  cd /verif && ./bin/check $REST > /tmp/try_$NAME.log 2>&1; RC=$?
  cd /repo && git checkout -- .
  V=$(grep -c "^VIOLATION" /tmp/try_$NAME.log); I=$(grep -c "^INCONCLUSIVE" /tmp/try_$NAME.log)
  echo "$NAME [$REST] exit=$RC violations=$V inconclusive=$I"
done
