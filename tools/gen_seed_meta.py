"""Write /verif/seeded/<id>/meta.json from the sub-agent's report (meta_agent.json), my own
confirmation run (confirm.json, written by tools/confirm_seed.sh) and seeded/DETECTION.json."""
import json
import os

ROOT = os.path.join(os.path.dirname(os.path.abspath(__file__)), "..", "seeded")
det = json.load(open(os.path.join(ROOT, "DETECTION.json")))
for name in sorted(os.listdir(ROOT)):
    d = os.path.join(ROOT, name)
    if not os.path.isdir(d):
        continue
    agent = json.load(open(os.path.join(d, "meta_agent.json"))) if os.path.exists(os.path.join(d, "meta_agent.json")) else {}
    conf = json.load(open(os.path.join(d, "confirm.json"))) if os.path.exists(os.path.join(d, "confirm.json")) else {}
    demo = "demo.py" if os.path.exists(os.path.join(d, "demo.py")) else "test_demo.py"
    meta = {
        "id": name,
        "property": agent.get("property", name[:3]),
        "what_it_changes": agent.get("title", ""),
        "breaks": agent.get("breaks", ""),
        "needs_to_manifest": agent.get("needs", ""),
        "files_changed": agent.get("files_changed", []),
        "demonstration": demo,
        "confirmed_by_me": {
            "how": "tools/confirm_seed.sh: scratch worktree of /repo HEAD under /tmp; the demonstration is run without and with the change; the repository's test suite is run with the change and compared with the stable baseline set (tests outside it re-run once); the worktree is removed afterwards",
            "repo_head": conf.get("repo_head"),
            "demo_exit_without_change": conf.get("demo_exit_without_change"),
            "demo_exit_with_change": conf.get("demo_exit_with_change"),
            "baseline_tests_not_passing_first_run": conf.get("stable_tests_not_passing_first_run"),
            "rerun_of_those_exit": conf.get("rerun_of_those_exit"),
        },
        "what_the_author_ran": agent.get("ran", []),
        "checks_run_against_it": "git -C /repo apply seeded/%s/patch.diff; bin/check <property> ...; git -C /repo checkout -- .  (tools/try_seed.sh)" % name,
        "caught_by": det.get(name, {}).get("caught_by", []),
        "note": det.get(name, {}).get("note", ""),
    }
    json.dump(meta, open(os.path.join(d, "meta.json"), "w"), indent=1)
print("wrote", len(det), "meta.json files")

# the matrix of DESIGN.md section 12
design = os.path.join(ROOT, "..", "DESIGN.md")
if os.path.exists(design):
    txt = open(design).read()
    b, e = "<!-- SEED-MATRIX-BEGIN -->", "<!-- SEED-MATRIX-END -->"
    if b in txt and e in txt:
        rows = ["| seed | property | what it changes | caught by |", "|---|---|---|---|"]
        for name in sorted(det):
            m = json.load(open(os.path.join(ROOT, name, "meta.json")))
            what = (m.get("what_it_changes") or det[name].get("note", "")).replace("|", "/")
            if len(what) > 150:
                what = what[:147] + "..."
            caught = "; ".join(det[name]["caught_by"]) or "**not caught** (" + (det[name].get("note") or "see below") + ")"
            rows.append(f"| {name} | {m['property']} | {what} | {caught} |")
        txt = txt[: txt.index(b) + len(b)] + "\n" + "\n".join(rows) + "\n" + txt[txt.index(e):]
        open(design, "w").write(txt)
        print("matrix written:", len(rows) - 2, "rows")
