#!/bin/sh
# Runs the repository's baseline test command (guard off) and compares with BASELINE.json stable_pass.
OUT=${1:-/tmp/verif_baseline.junit.xml}
cd /repo && /venv/bin/python -m pytest -ra -q -p no:cacheprovider --timeout=900 --continue-on-collection-errors --junitxml=$OUT >/tmp/verif_baseline.log 2>&1
/venv/bin/python - "$OUT" <<'PY'
import json, sys, xml.etree.ElementTree as ET
base = set(json.load(open('/root/.vp/BASELINE.json'))['stable_pass'])
root = ET.parse(sys.argv[1]).getroot()
passed=set()
for tc in root.iter('testcase'):
    name = tc.get('classname')+'::'+tc.get('name')
    if not any(ch.tag in ('failure','error','skipped') for ch in tc):
        passed.add(name)
missing = sorted(base-passed)
print(f"stable_pass={len(base)} passed_now={len(passed)} stable_not_passing={len(missing)}")
for m in missing[:40]: print("  NOT PASSING:", m)
sys.exit(1 if missing else 0)
PY
