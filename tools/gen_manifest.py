#!/usr/bin/env python3
"""Regenerates MANIFEST.json from the table below (kept valid at all times)."""
import json, os, sys
HERE = os.path.dirname(os.path.dirname(os.path.abspath(__file__)))
sys.path.insert(0, HERE)
from tools.manifest_table import CHECKS, NOT_APPLICABLE, HOOK_COMMITS  # noqa: E402

props = [json.loads(l) for l in open(os.path.join(HERE, "properties.jsonl"))]
ids = [p["id"] for p in props]
checks = []
for pid in ids:
    if pid in CHECKS:
        c = CHECKS[pid]
        checks.append({
            "property_id": pid,
            "quick_cmd": f"./bin/check {pid} --tier quick",
            "thorough_cmd": f"./bin/check {pid} --tier thorough",
            "evidence_file": f"evidence/{pid}.json",
            "replay_cmd_template": f"./bin/check {pid} --replay {{path}}",
            "engine": c["engine"],
            "level_claimed": {"category": "other", "text": c["text"], "design_ref": c["ref"]},
            "level_note": c["note"],
            "technique": c["technique"],
        })
na = [{"property_id": pid, "reason": NOT_APPLICABLE[pid]} for pid in ids if pid not in CHECKS]
assert all(pid in NOT_APPLICABLE for pid in ids if pid not in CHECKS), "every unclaimed property needs a reason"
manifest = {
    "version": 1,
    "setup_cmd": "./bin/setup",
    "hooks": {
        "guard": "STEPUP_CORE_VERIF",
        "enable": "no hooks: checks import /repo's working tree and drive it from outside (STEPUP_CORE_VERIF is reserved and unused)",
        "baseline_off_cmd": "cd /repo && /venv/bin/python -m pytest -ra -q -p no:cacheprovider --timeout=900 --continue-on-collection-errors",
        "source_commits": HOOK_COMMITS,
        "add_only": True,
    },
    "engines": [
        {"name": "E-Z3", "path": "vf/z3str.py, vf/z3re.py, vf/hashstream.py", "kind_free_text": "z3 encodings generated from live objects / ASTs (bounded strings in LIA, regex languages, byte streams)"},
        {"name": "E-XH", "path": "vf/xh.py, harness/", "kind_free_text": "CrossHair symbolic execution of the real Python functions (z3 backend), one process per condition"},
        {"name": "E-SQL", "path": "vf/symsql/", "kind_free_text": "symbolic semantics of StepUp's SQL (lark-parsed live statements, schema, triggers) over bounded tables in z3, with a fork-on-concretise executor for the real Python glue"},
    ],
    "checks": checks,
    "not_applicable": na,
    "notes": "Solver-based checking (z3 / CrossHair) of the real code; see DESIGN.md. Exit 0 = all obligations unsat/Confirmed within bounds and all vacuity twins sat; 1 = replayed violation not in known_findings.json; 3 = inconclusive (never reported as success).",
}
for e in manifest["engines"]:
    e["serves_properties"] = [pid for pid in ids if pid in CHECKS and e["name"] in CHECKS[pid]["engine"]]
json.dump(manifest, open(os.path.join(HERE, "MANIFEST.json"), "w"), indent=1)
print("claimed:", [c["property_id"] for c in checks]); print("n/a:", [n["property_id"] for n in na])
