#!/bin/bash
# confirm_seed.sh <seed-src-dir (contains patch.diff, demo.py|test_demo.py, meta.json)> <name>
# Confirms a seeded change in a scratch worktree of /repo HEAD: demo fails with it, passes without,
# and the repository's stable baseline tests still pass with it.  Writes /verif/seeded/<name>/.
set -u
SRC=$1; NAME=$2
WT=/tmp/confirm_$NAME
OUT=/verif/seeded/$NAME
mkdir -p $OUT
git -C /repo worktree remove --force $WT >/dev/null 2>&1
git -C /repo worktree add -q --detach $WT HEAD || exit 2
cp $SRC/patch.diff $OUT/patch.diff
DEMO=$(ls $SRC/demo.py $SRC/test_demo.py 2>/dev/null | head -1)
cp $DEMO $OUT/
[ -f $SRC/meta.json ] && cp $SRC/meta.json $OUT/meta_agent.json
DEMOF=$(basename $DEMO)
mkdir -p $WT/_seed/X; cp $DEMO $WT/_seed/X/
run_demo() {
  ( cd $WT && sed -i "s#/tmp/seed/C[0-9]*#$WT#g; s#_seed/[AB]/#_seed/X/#g" _seed/X/$DEMOF
    if [ "$DEMOF" = "demo.py" ]; then
      PATH=/venv/bin:$PATH STEPUP_BUILD_DURATION=0 PYTHONPATH=$WT timeout 600 /venv/bin/python _seed/X/demo.py > /tmp/confirm_$NAME.demo.log 2>&1
    else
      PATH=/venv/bin:$PATH STEPUP_BUILD_DURATION=0 PYTHONPATH=$WT timeout 600 /venv/bin/python -m pytest -q -p no:cacheprovider -n 0 _seed/X/$DEMOF > /tmp/confirm_$NAME.demo.log 2>&1
    fi
    echo $? )
}
BASE_RC=$(run_demo)
( cd $WT && git apply $OUT/patch.diff ) || { echo "$NAME: PATCH DOES NOT APPLY"; git -C /repo worktree remove --force $WT; exit 3; }
MUT_RC=$(run_demo)
# baseline with the change
( cd $WT && PYTHONPATH=$WT /venv/bin/python -m pytest -ra -q -p no:cacheprovider --timeout=900 --continue-on-collection-errors --basetemp=/tmp/pytest_confirm_$NAME --junitxml=/tmp/confirm_$NAME.junit.xml > /tmp/confirm_$NAME.suite.log 2>&1 )
MISSING=$(/venv/bin/python - /tmp/confirm_$NAME.junit.xml <<'PY'
import json, sys, xml.etree.ElementTree as ET
base = set(json.load(open('/root/.vp/BASELINE.json'))['stable_pass'])
passed=set()
for tc in ET.parse(sys.argv[1]).getroot().iter('testcase'):
    if not any(ch.tag in ('failure','error','skipped') for ch in tc):
        passed.add(tc.get('classname')+'::'+tc.get('name'))
print(",".join(sorted(base-passed)))
PY
)
if [ -n "$MISSING" ]; then
  # rerun the missing ones serially once (load flakes)
  IDS=$(echo $MISSING | tr ',' '\n' | sed 's#^tests\.\([a-z_]*\)::#tests/\1.py::#; s#^tests\.\([a-z_]*\)\.\([A-Za-z]*\)::#tests/\1.py::\2::#')
  ( cd $WT && PYTHONPATH=$WT /venv/bin/python -m pytest -q -p no:cacheprovider -n 0 --timeout=900 --basetemp=/tmp/pytest_confirm_$NAME $IDS > /tmp/confirm_$NAME.rerun.log 2>&1 ); RERUN_RC=$?
else
  RERUN_RC=0
fi
rm -rf /tmp/pytest_confirm_$NAME
git -C /repo worktree remove --force $WT
echo "$NAME: demo_without=$BASE_RC demo_with=$MUT_RC stable_missing_first_run=[$MISSING] rerun_rc=$RERUN_RC"
cat > $OUT/confirm.json <<JSON
{"name": "$NAME", "demo_exit_without_change": $BASE_RC, "demo_exit_with_change": $MUT_RC, "stable_tests_not_passing_first_run": "$MISSING", "rerun_of_those_exit": $RERUN_RC, "repo_head": "$(git -C /repo rev-parse --short HEAD)"}
JSON
