"""Source of MANIFEST.json (see gen_manifest.py)."""
HOOK_COMMITS = []
_NOTYET = "not yet decided by a solver-based check in this tree (see DESIGN.md section 5 for the plan); no other technique is substituted"
CHECKS = {
    "C18": dict(
        engine="E-Z3",
        ref="DESIGN.md section 5 / C18",
        technique="bounded SMT (z3, linear integer arithmetic over bounded strings) on the live AST of dir_range_upper / prefix_clause and a validated LIKE model",
        text="For every directory and label within the length bound (all Unicode scalar values except NUL) the half-open range of dir_range_upper and the LIKE predicate of prefix_clause select exactly label.startswith(dir): unsat = holds for all such strings, a model is replayed on a real SQLite connection made by stepup.core.sqlite3.connect before it is reported.",
        note="Trusted: the LIKE/BINARY-collation model (validated differentially against the live connection on every run); z3. Bounds: quick |dir|<=4..6,|label|<=6..8; thorough |dir|<=7..10,|label|<=9..12.",
    ),
}
NOT_APPLICABLE = {
    "C15": "Atomicity/isolation are delivered by SQLite's C transaction machinery (BEGIN IMMEDIATE/commit/rollback) and asyncio task scheduling; the remaining Python has no symbolic input for a solver to range over, and a model of rollback would restate the assumption (DESIGN.md section 6).",
}
for _p in ["C01","C02","C03","C04","C05","C06","C07","C08","C09","C10","C11","C12","C13","C14","C16","C17","C19","C20"]:
    NOT_APPLICABLE.setdefault(_p, _NOTYET)
