"""Source of MANIFEST.json (see gen_manifest.py)."""
HOOK_COMMITS = []
_NOTYET = "not yet decided by a solver-based check in this tree (see DESIGN.md section 5 for the plan); no other technique is substituted"
CHECKS = {
    "C18": dict(
        engine="E-Z3",
        ref="DESIGN.md section 5 / C18",
        technique="bounded SMT (z3, linear integer arithmetic over bounded strings) on the live AST of dir_range_upper / prefix_clause and a validated LIKE model",
        text="For every directory and label within the length bound (all Unicode scalar values except NUL) the half-open range of dir_range_upper and the LIKE predicate of prefix_clause select exactly label.startswith(dir): unsat = holds for all such strings, a model is replayed on a real SQLite connection made by stepup.core.sqlite3.connect before it is reported.",
        note="Trusted: the LIKE/BINARY-collation model (validated differentially against the live connection on every run); z3. Bounds: quick |dir|<=4..6,|label|<=6..8; thorough |dir|<=7..10,|label|<=9..12.",
    ),
}
CHECKS.update({
    "C13": dict(
        engine="E-Z3 + E-XH",
        ref="DESIGN.md section 5 / C13",
        technique="bounded SMT (z3 bit-vectors): the real StepHash.from_inp/with_out_hashes run on symbolic word proxies with SHA-256 replaced by a recorder; stream equality by a DP over byte cells; CrossHair for FileHash.refreshed",
        text="Within the shape/length bounds, two different step configurations never feed the same byte stream to SHA-256 (injectivity of the pre-image for inputs and outputs), the stream does not depend on dict order (every order the real sorted() can take is forked with its path condition), and FileHash.refreshed/compute_inp_hashes re-hash and report a change exactly when a stat field differs and content/size/mode differ. unsat = holds for all values within the bound; a collision model is replayed with the real hashlib.",
        note="Trusted: SHA-256 injective on the recorded stream; FileHash validity (unknown => mode=size=0, known => 32-byte digest, mode != 0); NUL-free strings <= 6 bytes (8 thorough), <= 2 files, <= 1-2 env vars, <= 1 override. JSON round trip not covered.",
    ),
    "C16": dict(
        engine="E-Z3 + E-XH",
        ref="DESIGN.md section 5 / C16",
        technique="bounded SMT: bit-vector execution of the real _encode_message/_decode_header on byte proxies (all 64-bit ids); CrossHair on the real reader/pairing/dispatch code in a stream-slice domain with unbounded sizes",
        text="Frame header round trip for every 64-bit call id and body length, acceptance of raw headers exactly up to MAX_BODY_SIZE, reassembly of two messages under any fragmentation or cut (sizes unbounded, <= 3-4 fragments), response pairing by id in both clients and in the server send loop, failure classes (same UsageError subclass or RPCError), exposure only through @allow_rpc. Confirmed over all paths within the bounds; counterexamples are replayed in plain Python.",
        note="Trusted: int.to_bytes/from_bytes are big-endian inverses; recv() contract. Not covered: real sockets, asyncio scheduling, concurrency of in-flight calls, pickle.",
    ),
    "C17": dict(
        engine="E-Z3 + E-XH",
        ref="DESIGN.md section 5 / C17",
        technique="SMT over regular languages (z3 regex): the regex produced by the real convert_nglob_to_regex (with the live compile flags) is translated exactly and compared with a reference assembled from the stdlib's fnmatch.translate, over all paths, for every pattern of a token grammar up to a length bound; CrossHair for extend/reduce/will_change",
        text="For every enumerated pattern (<= 3 tokens quick, <= 4 thorough) the matcher accepts exactly the normalised relative paths that a standard recursive glob returns (files always, directories for patterns ending in '/', '*', '**', '${*name}'), naming a '*' changes nothing, a repeated name is included in distinct names with equal captures, the stored regex means the same at every compile site, and will_change equals a rescan. Paths are unbounded (language inclusion), patterns are enumerated.",
        note="Trusted: the reference model of glob(recursive=True, include_hidden=True), validated against the real glob module on a generated tree on every run; the regex translator, validated against re on every run. Known finding: negated class matches '/'.",
    ),
    "C20": dict(
        engine="E-XH",
        ref="DESIGN.md section 5 / C20",
        technique="symbolic execution (CrossHair/z3) of the real translate/translate_back/get_affixes/apply_affixes/_keep_affixes/parent_dir and the ROOT/HERE expressions of Executor._run_command through a pure-Python path shim extracted from the live stdlib",
        text="For every path and workdir within the length bound (|p| <= 3, |wd| <= 2 over all characters quick; longer over {/ . a b} thorough) and five HERE settings, the translated path designates the same file from the root as the original from the step's directory, round trips, is normalised, keeps './' and trailing '/', and ROOT/HERE designate root and workdir. Confirmed over all paths; counterexamples replayed in plain Python.",
        note="Trusted: the purepath shim (posixpath functions extracted from the live stdlib source, path.Path methods grafted), validated differentially on every run. Symlinks and the RPC path of api.step() are outside.",
    ),
})
_MECH = "Claimed for its mechanisms only: whole builds (subprocesses, file system, event loop) are not encoded; "
CHECKS.update({
    "C02": dict(
        engine="E-XH + E-SQL",
        ref="DESIGN.md section 5 / C02 and section 9",
        technique="symbolic execution (CrossHair/z3) of the real diagnostic-message functions over all role / creator / authorship combinations; bounded SMT over a symbolic relational database (E-SQL) for the deferred flag",
        text=_MECH + "decided: the text (and exception class) of every two-declaration conflict message is symmetric in the order of the two declarations (_file_collision_message, _duplicate_step_message, _duplicate_static_tree_message, _claim_collision_message). The graph-level commutativity of declarations is the E-SQL part of C08. Also decided (E-SQL, inductive step over the real mark_completed / update_file_hashes / mark_step_pending from any state within the bound): no completion or file update leaves a step deferred whose dynamic inputs are all available -- the deferred flag is the one piece of state through which 'who finished first' can decide whether a build succeeds.",
        note="Creators from {two steps, StepUp itself}; paths fixed; E-SQL bounds as for C09. Not covered: identity of the final graph across job counts / dispatch orders.",
    ),
    "C03": dict(
        engine="E-XH + E-Z3",
        ref="DESIGN.md section 5 / C03",
        technique="symbolic execution (CrossHair) of Executor.execute_job/_classify_execution/try_skip_job with stubbed environment; z3 inductive step of the real record_run_started/record_run_stopped on symbolic dicts with a symbolic clock (fork executor)",
        text="A step is recorded SUCCEEDED iff no re-hashed input changed, nothing is unavailable/unfresh and the command succeeded; a changed input fails the step and drains regardless of keep_going; stored results are reused only on equal digests; and from any bookkeeping state satisfying the invariant, no start/stop event at any instant makes the scheduler forget a producer's completion that a still-running consumer needs (so an unfresh input is always detected).",
        note="Stubs: hash computation, command execution, reporter, database context; clock = arbitrary non-decreasing instants; 4 steps (5 thorough) in the inductive step. Dispatch-time availability (O3.1) is part of the E-SQL obligations of C10.",
    ),
    "C06": dict(
        engine="E-XH",
        ref="DESIGN.md section 5 / C06",
        technique="symbolic execution (CrossHair/z3) of File.before_delete, revert_optional_steps, remove_deletable_files/_prune_empty_dirs, Builder.finalize and the loop of clean.clean against a stubbed file system with arbitrary answers",
        text="Both cleaners remove a file only when it is volatile or its re-hash equals the recorded hash (safe mode), never when it cannot be hashed; directories only when the file system reports them empty; nothing without --commit; and the automatic cleanup pass runs iff the build was unrestricted, complete and cleaning is enabled. Which graph nodes become candidates (SQL) is decided by the E-SQL obligations of C07.",
        note="Stubs with arbitrary answers: Path.remove/rmdir/is_dir/iterdir/exists, FileHash.refreshed outcome, cursor rows, reporter, console. <= 2 queued files + 1 directory chain.",
    ),
    "C14": dict(
        engine="E-XH",
        ref="DESIGN.md section 5 / C14",
        technique="symbolic execution (CrossHair/z3) of Watcher.record_change over event sequences, of Workflow.relevant_paths_under over pools of patterns/directories, and of AsyncInotifyWrapper.dir_loop/change_loop over a symbolic file-system depth and symbolic watch bookkeeping",
        text=_MECH + "decided: folding of any sequence of <= 3 (4 thorough) UPDATED/DELETED/DELETED_PARENT events over two paths and their directory yields disjoint updated/deleted sets reflecting the last relevant event per path; a removed directory reports exactly the recorded glob matches beneath it; for a requested directory of <= 3 (4 thorough) levels of which any number exists and any earlier watch bookkeeping, dir_loop records every missing level and watches the nearest existing ancestor, and when the levels appear change_loop leaves the directory watched and reports the file in it.",
        note="Relevance is an arbitrary per-path constant; Inotify, the path.Path file-system calls and iter_until_stopped are stubs; kernel delivery of inotify events, directory moves and absolute/'..' paths are outside.",
    ),
    "C19": dict(
        engine="E-XH",
        ref="DESIGN.md section 5 / C19",
        technique="symbolic execution (CrossHair/z3) of finalize.report_unbuilt and _report_glob_violations with stubbed sub-reports",
        text="Exit status only: FAILED whenever a step failed, DRAINED iff draining, PENDING iff not draining and a required step remained pending, zero only if nothing questionable was found, glob errors yield FAILED exactly when the glob report runs; _report_glob_violations sets FAILED iff a match is a file a step builds and WARNING iff a match has no node.",
        note="The end-of-build summary (analyze_pending) is outside: window functions and a forest walk over nine temp tables are outside the encoded SQL subset.",
    ),
})
CHECKS.update({
    "C10": dict(
        engine="E-SQL",
        ref="DESIGN.md section 5 / C10",
        technique="bounded SMT over a symbolic relational database: the live SQL (SELECT_NEXT_STEP, FILL/APPLY_SAFE_UPDATE, UPDATE/PROPAGATE_CHECK_AFTER, RECOMPUTE_READY, the triggers of STEP_SCHEMA) is given a z3 semantics, the real Scheduler/Step/File/Node methods run natively against it with a fork-on-concretise executor; models are replayed on a real SQLite database through the real classes",
        text="Inductive one-step obligations from ANY database state within the capacity bound (K node slots, D edges) that satisfies the schema constraints and the graph invariants: (1) the dispatch query returns only eligible steps and returns one whenever one exists, given coherent caches; (2) each recomputation makes the cached attribute equal to its definition (safe, ready, least fixed point of implied need) and clears the flags; (3) each of 17 mutations performed by the real methods keeps 'whatever is not flagged agrees with its definition' -- the no-lost-wake-up argument for every order of mutations. unsat = holds for all states in the bound; every model is replayed on the real code.",
        note="Trusted: the E-SQL semantics (validated differentially against real SQLite on random valid states on every run), z3. Bounds: K=4-5 nodes, D=3 edges quick; K=5-6, D=4 thorough. Priority order (ORDER BY) and the asyncio wake-up of the job loop are outside. Two genuine defects found and repaired (see known_findings.json).",
    ),
})
CHECKS.update({
    "C12": dict(
        engine="E-SQL",
        ref="DESIGN.md section 5 / C12",
        technique="bounded SMT over a symbolic relational database (E-SQL) with the real Scheduler.pop_next_job, Step.hold and Step.release run natively by the fork-on-concretise executor; models replayed on a real SQLite database through the real classes",
        text="Resource and hold clauses as inductive steps from any state within the capacity bound: one real pop_next_job() keeps 'units held by RUNNING steps <= available, and no RUNNING step requires an undefined resource', and moves a step to RUNNING only without a stored hash (CHECKING otherwise); after hold() on a RUNNING step, the next pop_next_job() never moves a descendant to RUNNING; hold()/release() flag every cache they make stale; a fully recycled step requires exactly the resources of the new declaration.",
        note="The job limit (an asyncio loop counting running tasks) and promoted hash jobs are not state and are outside. Scheduler._derive_job is stubbed in these obligations. Bounds: K=4 nodes quick, 5 thorough; 2 resource requirements, 2 available resources with 0..3 units.",
    ),
})
CHECKS.update({
    "C11": dict(
        engine="E-SQL + E-XH",
        ref="DESIGN.md section 5 / C11",
        technique="bounded SMT over a symbolic relational database (E-SQL): the live UPDATE/PROPAGATE_CHECK_AFTER, RECONCILE_TARGET_DIRS and the optional-step SQL of finalize are given a z3 semantics and the real Scheduler._update_meta_after, Workflow.reconcile_targets and revert_optional_steps run natively against it; CrossHair for need_threshold and tui._normalize_targets",
        text="From any database state within the capacity bound: after the scheduler's recomputation the cached need of every active step equals the least fixed point of the need equation written from the property text (own need; TARGET for producers of regular outputs named by a target or under a directory target; consumers' needs through pending/regular/orphan rules); reconcile_targets leaves no step with a stale need unflagged for ANY previous target configuration; dropping an input edge or detaching a consumer flags the producers; revert_optional_steps reverts exactly the attached OPTIONAL non-pending steps and queues exactly their regular (with hash) and volatile (without) outputs; the dispatch threshold is DEFAULT iff targets exist; a raw target is a directory target iff it ends in '/'.",
        note="'Executed' in the sense of commands run is C10/C03; here: the need attribute and the revert pass. Bounds: K=4 nodes, D=2-3 edges quick; K=5 thorough; labels from {a, b, d/x}, one directory target d/. Two genuine defects found and repaired (see known_findings.json).",
    ),
})
_ESQL = "bounded SMT over a symbolic relational database (E-SQL): the live SQL (schema, CHECK constraints, triggers, recursive CTEs) is given a z3 semantics over K node slots and D dependency edges, the real Python methods run natively against it with a fork-on-concretise executor (every feasible value of what the code reads is explored), the post-condition is one solver query per path; every model is replayed on a real SQLite database through the real classes"
CHECKS.update({
    "C09": dict(
        engine="E-SQL",
        ref="DESIGN.md section 5 / C09 and section 9",
        technique=_ESQL,
        text="Inductive step, one obligation per operation (Node.detach, Step.reattach, Workflow.delete_detached, amend_step with an input / output / volatile output, Step.mark_completed success and failure, Workflow.mark_step_pending, update_file_hashes for each of the four causes, the recycle branch of Trellis.create, Trellis.try_recycle): from ANY database state within the bound that satisfies the schema and the invariants, the operation either raises a UsageError or leads to a state in which a node is detached iff unreachable from the root through creator links, dependencies are acyclic and only link files with steps, UNDECLARED files are detached, outputs of a SUCCEEDED step are BUILT or VOLATILE, and states agree with hash presence; it never raises ConsistencyError or another internal error.  Induction covers sequences of any length composed of these operations.",
        note="Bounds: K=3-4 nodes, D=1-3 edges quick (per operation, sized by path count), one more thorough. Assumed, not re-established: invariants I6, I8, I9 (DESIGN section 9.3), creator links form a forest, update_file_hashes is applied only to (cause, state) pairs of its transition table, no static trees / globs in the state. Not covered: INSERT of brand-new steps (define_step), reset_for_rerun as a whole, step state transitions as a temporal property.",
    ),
    "C01": dict(
        engine="E-SQL + E-XH",
        ref="DESIGN.md section 5 / C01 and section 9",
        technique=_ESQL + "; CrossHair for the two startup rescans",
        text=_MECH + "decided: the stale-propagation closure -- after update_file_hashes (every cause), mark_completed (success, failure) and mark_step_pending, from any state within the bound, no step that consumes a file which became available (or changed while available) is SUCCEEDED, FAILED or deferred, and no output of a step that left SUCCEEDED is still BUILT, attached or detached (local rules applied to every change give the transitive closure); the environment rescan at startup marks exactly the steps whose recorded value differs; the glob rescan uses the registered substitutions.",
        note="Bounds as for C09. The composition over a history of edits and builds, commands and file contents are outside.",
    ),
    "C04": dict(
        engine="E-SQL + E-XH",
        ref="DESIGN.md section 5 / C04 and section 9",
        technique=_ESQL + "; CrossHair for the environment recorded in a step hash and for the glob rescan",
        text=_MECH + "decided: recording an external change of one file makes a step leave SUCCEEDED only inside the cone (it consumes a file whose state changed or the edited file, or created the edited file), changes no other file outside it, drops no stored step hash; the environment values that go into a step hash are those of the command's environment; a glob rescan over an unchanged file system changes nothing.",
        note="Bounds as for C09 (update_file_hashes EXTERNAL). 'Rewrites no output' on disk and the job count of a real rebuild are outside; skipping on equal digests is C03, FileHash.refreshed identity is C13.",
    ),
    "C05": dict(
        engine="E-SQL",
        ref="DESIGN.md section 5 / C05 and section 9",
        technique=_ESQL,
        text="Recovery half only. Trusted: SQLite commits atomically, so the database found after a kill is a committed state, which by C09 satisfies the invariants (possibly with RUNNING / CHECKING steps and hold counters). From ANY such state within the bound the real reset_interrupted_steps leaves no step RUNNING or CHECKING, no attached step FAILED, every attached interrupted step PENDING and schedulable with no output still BUILT, and the invariants hold; Trellis.try_recycle never yields a FAILED, holding or detached step.",
        note="Outside: durability / WAL, crash points inside a step's own file-system actions, Workflow.to_be_deleted being memory-only, equality of the completed build with an uninterrupted one.",
    ),
    "C07": dict(
        engine="E-SQL",
        ref="DESIGN.md section 5 / C07 and section 9",
        technique=_ESQL,
        text="Graph side. From any state within the bound the real Workflow.delete_detached reaches its fixed point (no detached node without products and sinks survives), deletes no attached node, queues every deleted VOLATILE file unconditionally and every deleted BUILT / OUTDATED file with its recorded hash together with its parent directory, queues nothing else, strips the stored hash of a surviving step that lost a product, and keeps the invariants of C09; revert_optional_steps reverts exactly the executed optional steps and queues exactly their outputs. Removal from disk, and only when unmodified, is C06.",
        note="Bounds: K=3 nodes quick, K=4 thorough (10 279 paths), 2 labels. Static trees are outside.",
    ),
    "C08": dict(
        engine="E-SQL + E-XH",
        ref="DESIGN.md section 5 / C08 and section 9",
        technique=_ESQL + "; CrossHair symbolic execution of Workflow.define_step/_raise_if_glob_match against a stub graph (recycle outcome symbolic)",
        text="Claims on one path. From any state within the bound _check_declaration accepts a declaration as new exactly when no attached file node has the path, reports 'already declared' exactly when the attached node has the same role and creator, and rejects otherwise; for every pair of declarations of one path (static / output / volatile, same or different creators) through the real declare_static_files / amend_step, a rejection happens in the order D1;D2 iff it happens in D2;D1, and at no point two attached file nodes exist for the path; a path matched by a registered glob pattern cannot be declared as an output or volatile output (amend_step). The string side (static trees, all spellings) is C18, glob patterns C17, message text C02.",
        note="Bounds: K=4 nodes. O8.4 (CrossHair): define_step against a stub graph with pools of 4 patterns / 6 paths and a symbolic try_recycle answer. Static trees (register_static_tree as a whole), the node INSERTs of define_step and the root's own declarations are outside.",
    ),
})
NOT_APPLICABLE = {
    "C15": "Atomicity/isolation are delivered by SQLite's C transaction machinery (BEGIN IMMEDIATE/commit/rollback) and asyncio task scheduling; the remaining Python has no symbolic input for a solver to range over, and a model of rollback would restate the assumption (DESIGN.md section 6).",
}
for _p in ["C01","C02","C03","C04","C05","C06","C07","C08","C09","C10","C11","C12","C13","C14","C16","C17","C19","C20"]:
    NOT_APPLICABLE.setdefault(_p, _NOTYET)
