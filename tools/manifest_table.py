"""Source of MANIFEST.json (see gen_manifest.py)."""
HOOK_COMMITS = []
_NOTYET = "not yet decided by a solver-based check in this tree (see DESIGN.md section 5 for the plan); no other technique is substituted"
CHECKS = {
    "C18": dict(
        engine="E-Z3",
        ref="DESIGN.md section 5 / C18",
        technique="bounded SMT (z3, linear integer arithmetic over bounded strings) on the live AST of dir_range_upper / prefix_clause and a validated LIKE model",
        text="For every directory and label within the length bound (all Unicode scalar values except NUL) the half-open range of dir_range_upper and the LIKE predicate of prefix_clause select exactly label.startswith(dir): unsat = holds for all such strings, a model is replayed on a real SQLite connection made by stepup.core.sqlite3.connect before it is reported.",
        note="Trusted: the LIKE/BINARY-collation model (validated differentially against the live connection on every run); z3. Bounds: quick |dir|<=4..6,|label|<=6..8; thorough |dir|<=7..10,|label|<=9..12.",
    ),
}
CHECKS.update({
    "C13": dict(
        engine="E-Z3 + E-XH",
        ref="DESIGN.md section 5 / C13",
        technique="bounded SMT (z3 bit-vectors): the real StepHash.from_inp/with_out_hashes run on symbolic word proxies with SHA-256 replaced by a recorder; stream equality by a DP over byte cells; CrossHair for FileHash.refreshed",
        text="Within the shape/length bounds, two different step configurations never feed the same byte stream to SHA-256 (injectivity of the pre-image for inputs and outputs), the stream does not depend on dict order (every order the real sorted() can take is forked with its path condition), and FileHash.refreshed/compute_inp_hashes re-hash and report a change exactly when a stat field differs and content/size/mode differ. unsat = holds for all values within the bound; a collision model is replayed with the real hashlib.",
        note="Trusted: SHA-256 injective on the recorded stream; FileHash validity (unknown => mode=size=0, known => 32-byte digest, mode != 0); NUL-free strings <= 6 bytes (8 thorough), <= 2 files, <= 1-2 env vars, <= 1 override. JSON round trip not covered.",
    ),
    "C16": dict(
        engine="E-Z3 + E-XH",
        ref="DESIGN.md section 5 / C16",
        technique="bounded SMT: bit-vector execution of the real _encode_message/_decode_header on byte proxies (all 64-bit ids); CrossHair on the real reader/pairing/dispatch code in a stream-slice domain with unbounded sizes",
        text="Frame header round trip for every 64-bit call id and body length, acceptance of raw headers exactly up to MAX_BODY_SIZE, reassembly of two messages under any fragmentation or cut (sizes unbounded, <= 3-4 fragments), response pairing by id in both clients and in the server send loop, failure classes (same UsageError subclass or RPCError), exposure only through @allow_rpc. Confirmed over all paths within the bounds; counterexamples are replayed in plain Python.",
        note="Trusted: int.to_bytes/from_bytes are big-endian inverses; recv() contract. Not covered: real sockets, asyncio scheduling, concurrency of in-flight calls, pickle.",
    ),
    "C17": dict(
        engine="E-Z3 + E-XH",
        ref="DESIGN.md section 5 / C17",
        technique="SMT over regular languages (z3 regex): the regex produced by the real convert_nglob_to_regex (with the live compile flags) is translated exactly and compared with a reference assembled from the stdlib's fnmatch.translate, over all paths, for every pattern of a token grammar up to a length bound; CrossHair for extend/reduce/will_change",
        text="For every enumerated pattern (<= 3 tokens quick, <= 4 thorough) the matcher accepts exactly the normalised relative paths that a standard recursive glob returns (files always, directories for patterns ending in '/', '*', '**', '${*name}'), naming a '*' changes nothing, a repeated name is included in distinct names with equal captures, the stored regex means the same at every compile site, and will_change equals a rescan. Paths are unbounded (language inclusion), patterns are enumerated.",
        note="Trusted: the reference model of glob(recursive=True, include_hidden=True), validated against the real glob module on a generated tree on every run; the regex translator, validated against re on every run. Known finding: negated class matches '/'.",
    ),
    "C20": dict(
        engine="E-XH",
        ref="DESIGN.md section 5 / C20",
        technique="symbolic execution (CrossHair/z3) of the real translate/translate_back/get_affixes/apply_affixes/_keep_affixes/parent_dir and the ROOT/HERE expressions of Executor._run_command through a pure-Python path shim extracted from the live stdlib",
        text="For every path and workdir within the length bound (|p| <= 3, |wd| <= 2 over all characters quick; longer over {/ . a b} thorough) and five HERE settings, the translated path designates the same file from the root as the original from the step's directory, round trips, is normalised, keeps './' and trailing '/', and ROOT/HERE designate root and workdir. Confirmed over all paths; counterexamples replayed in plain Python.",
        note="Trusted: the purepath shim (posixpath functions extracted from the live stdlib source, path.Path methods grafted), validated differentially on every run. Symlinks and the RPC path of api.step() are outside.",
    ),
})
NOT_APPLICABLE = {
    "C15": "Atomicity/isolation are delivered by SQLite's C transaction machinery (BEGIN IMMEDIATE/commit/rollback) and asyncio task scheduling; the remaining Python has no symbolic input for a solver to range over, and a model of rollback would restate the assumption (DESIGN.md section 6).",
}
for _p in ["C01","C02","C03","C04","C05","C06","C07","C08","C09","C10","C11","C12","C13","C14","C16","C17","C19","C20"]:
    NOT_APPLICABLE.setdefault(_p, _NOTYET)
