"""E-XH: CrossHair driver.

A *condition* is a plain function ``cond(args...) -> bool`` in a module under ``/verif/harness``
that calls the real code imported from /repo and returns whether the property holds for these
arguments.  The driver generates, per condition, a contract file with

* ``<cond>__holds``:  ``pre: <PRE>`` / ``post: _``       -> must be "Confirmed over all paths"
* ``<cond>__twin``:   ``pre: <PRE>`` / ``post: not _``   -> must be refuted (reachability witness:
  there is an input satisfying PRE for which the condition is evaluated and true)

and runs ``crosshair check --report_all --per_condition_timeout T file:LINE`` for each, one
process per contract.  A counterexample of ``__holds`` is replayed in plain Python (no
CrossHair) before it is believed.
"""

from __future__ import annotations

import inspect
import os
import re
import subprocess
import sys
import tempfile
import time

from vf.runner import REPO, VERIF, ObResult, Violation, enc, run_replay, write_replay

TMP = os.path.join(VERIF, ".cache", "xh")

TEMPLATE = '''\
import sys
sys.path.insert(0, {verif!r})
sys.path.insert(0, {repo!r})
from {module} import {cond} as _cond
{imports}

def {cond}__holds{sig}:
    """
    pre: {pre}
    post: _
    """
    return _cond({call})

def {cond}__twin{sig}:
    """
    pre: {pre}
    post: not _
    """
    return _cond({call})
'''

REPLAY = '''
from {module} import {cond}
{imports}
try:
    r = {cond}({args})
except Exception as exc:  # the property does not hold if the condition cannot be evaluated
    import traceback; traceback.print_exc()
    print("condition raised", type(exc).__name__, exc)
    sys.exit(1)
print("{cond}({args_s}) ->", r)
sys.exit(0 if r is True else 1)
'''


def _gen(module, cond, pre, imports=""):
    mod = __import__(module, fromlist=[cond])
    fn = getattr(mod, cond)
    sig = inspect.signature(fn)
    params = list(sig.parameters)
    sigtxt = str(sig)
    os.makedirs(TMP, exist_ok=True)
    fd, path = tempfile.mkstemp(prefix=f"{cond}_", suffix=".py", dir=TMP)
    src = TEMPLATE.format(
        verif=VERIF,
        repo=REPO,
        module=module,
        cond=cond,
        sig=sigtxt,
        pre=pre,
        call=", ".join(params),
        imports=imports,
    )
    with os.fdopen(fd, "w") as fh:
        fh.write(src)
    lines = src.splitlines()
    l_holds = next(i for i, ln in enumerate(lines) if ln.startswith(f"def {cond}__holds")) + 2
    l_twin = next(i for i, ln in enumerate(lines) if ln.startswith(f"def {cond}__twin")) + 2
    return path, l_holds, l_twin, fn


def _run(path, line, timeout, extra_env=None):
    env = dict(os.environ)
    env["PYTHONPATH"] = f"{VERIF}:{REPO}:" + env.get("PYTHONPATH", "")
    env["PYTHONHASHSEED"] = "0"
    if extra_env:
        env.update(extra_env)
    cmd = [
        sys.executable,
        "-m",
        "crosshair",
        "check",
        "--report_all",
        "--per_condition_timeout",
        str(timeout),
        f"{path}:{line}",
    ]
    return subprocess.Popen(cmd, stdout=subprocess.PIPE, stderr=subprocess.PIPE, text=True, env=env)


def _classify(out: str):
    """-> (verdict, detail)"""
    verdict, detail = "error", out.strip()[-400:]
    for ln in out.splitlines():
        m = re.match(r"^(.*?):(\d+): (info|error): (.*)$", ln)
        if not m:
            continue
        kind, msg = m.group(3), m.group(4)
        if kind == "info" and msg.startswith("Confirmed over all paths"):
            return "confirmed", msg
        if kind == "info" and msg.startswith("Not confirmed"):
            return "not_confirmed", msg
        if kind == "info" and msg.startswith("Unable to meet precondition"):
            return "no_precondition", msg
        if kind == "error":
            return "refuted", msg
    return verdict, detail


def _call_args(msg: str, name: str):
    m = re.search(re.escape(name) + r"\((.*?)\)(?: \(which returns| \(which raises|$)", msg)
    if not m:
        m = re.search(re.escape(name) + r"\((.*?)\)(?=\s|$)", msg)
    return m.group(1) if m else None


def run_condition(
    res: ObResult,
    pid: str,
    oid: str,
    module: str,
    cond: str,
    pre: str,
    timeout: float,
    imports: str = "",
    twin: bool = True,
    key: str | None = None,
    what: str = "",
    extra_env=None,
):
    """Run one condition (and its twin) and record queries/violations in res."""
    path, l_holds, l_twin, fn = _gen(module, cond, pre, imports)
    res.encoded.append(enc(fn, f"{module}.{cond}"))
    t0 = time.time()
    p_h = _run(path, l_holds, timeout, extra_env)
    p_t = _run(path, l_twin, min(timeout, 60), extra_env) if twin else None
    out_h, err_h = p_h.communicate()
    dt_h = time.time() - t0
    verdict, detail = _classify(out_h)
    note = "" if verdict == "confirmed" else (detail + " " + err_h.strip()[-300:])
    res.q(f"{cond}: {what or pre}", verdict, dt_h, expect="confirmed", note=note[:500])
    if verdict == "refuted":
        # q() does not flag 'refuted' as inconclusive; decide here by replay.
        args = _call_args(detail, f"{cond}__holds")
        if args is None:
            res.inconclusive.append(f"{cond}: cannot parse counterexample: {detail}")
        else:
            k = key or f"{oid}:{cond}"
            body = REPLAY.format(module=module, cond=cond, args=args, args_s=args.replace('"', "'"), imports=imports)
            rp = write_replay(pid, oid, f"{k} {args}", body)
            ok, out = run_replay(rp)
            if ok:
                res.violations.append(
                    Violation(k, f"{what or cond} fails for ({args}): {detail[:200]}", {"args": args}, rp)
                )
            else:
                res.inconclusive.append(
                    f"{cond}: CrossHair counterexample ({args}) does not reproduce in plain Python "
                    f"(engine artefact): {out[-200:]}"
                )
    if p_t is not None:
        out_t, err_t = p_t.communicate()
        tv, td = _classify(out_t)
        # twin is expected to be refuted: some input makes the condition true.
        if tv == "refuted":
            res.twin(f"{cond} reachable", "sat", time.time() - t0)
            a = _call_args(td, f"{cond}__twin")
            if a:
                res.samples.append({"condition": cond, "reachability_witness": a[:300]})
        else:
            res.twin(f"{cond} reachable", tv, time.time() - t0, note=td[:200])
    try:
        os.unlink(path)
    except OSError:
        pass
    return verdict
