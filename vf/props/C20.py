"""C20 - a path means the same file to a step and to the director."""

from __future__ import annotations

import os

from vf import xh
from vf.runner import Ob, ObResult, enc

CLAIM = (
    "C20: translate / translate_back / get_affixes / apply_affixes / _keep_affixes / parent_dir and "
    "the ROOT/HERE expressions of Executor._run_command, executed symbolically by CrossHair through "
    "the purepath shim, satisfy the denotation oracle for every path and workdir within the bound."
)
OUTSIDE = [
    "symlinks (realpath): denotation is computed with normpath",
    "api.step()/amend()/static() end to end (RPC)",
    "paths longer than the stated bounds; Windows",
]
ASSUMPTIONS = [
    "purepath shim == path.Path/posixpath (functions extracted from the live stdlib / path package; "
    "validated differentially on every run)",
    "STEPUP_ROOT=/r, HERE in {unset, '.', 's', 's/t', '../o'}, cwd = root/HERE",
]

ALPHA = "/.ab"


def _pre_str(name, n, alpha=None):
    s = f"len({name}) <= {n}"
    if alpha:
        s += f" and all(c in {alpha!r} for c in {name})"
    return s


def _validate(res):
    from vf.shims import purepath as pp

    seed = int(os.environ.get("VERIF_SEED", "0") or 0)
    res.extra["purepath_vs_real_cases"] = pp.validate(seed, 150)
    import stepup.core.path as sp
    import stepup.core.api as api

    res.encoded += [enc(sp.translate), enc(sp.translate_back), enc(sp.get_affixes), enc(sp.apply_affixes)]


def _mk(cond, pre_q, pre_t, what, here=None, tq=300, tt=1500):
    def fn(tier):
        res = ObResult()
        _validate(res)
        pre = pre_q if tier == "quick" else pre_t
        if here is not None:
            pre += f" and here_i == {here}"
        res.bounds = pre
        xh.run_condition(res, "C20", fn.oid, "harness.c20", cond, pre, tq if tier == "quick" else tt, what=what)
        res.nontrivial = 1
        return res

    return fn


OBLIGATIONS = []


def _add(oid, fn, title, weight=1, timeout=None):
    fn.oid = oid
    OBLIGATIONS.append(Ob(oid, fn, title, weight=weight, timeout=timeout or {"quick": 1500, "thorough": 5400}))


for h in range(5):
    _add(
        f"O20.1.h{h}",
        _mk(
            "translate_denotes",
            f"{_pre_str('p', 3)} and {_pre_str('wd', 2)}",
            f"{_pre_str('p', 4, ALPHA)} and {_pre_str('wd', 3, ALPHA)}",
            "translate(p, wd) denotes from the root the file p denotes from root/HERE/wd",
            here=h,
        ),
        f"translate denotation, HERE case {h}",
        weight=5,
    )
for h in (0, 2, 4):
    _add(
        f"O20.2.h{h}",
        _mk(
            "roundtrip_denotes",
            f"{_pre_str('p', 3)} and {_pre_str('wd', 2)}",
            f"{_pre_str('p', 4, ALPHA)} and {_pre_str('wd', 3, ALPHA)}",
            "translate_back(translate(p, wd), wd) denotes the same file from the workdir",
            here=h,
        ),
        f"translate/translate_back round trip, HERE case {h}",
        weight=5,
    )
    _add(
        f"O20.2b.h{h}",
        _mk(
            "back_denotes",
            f"{_pre_str('t', 3)} and {_pre_str('wd', 2)}",
            f"{_pre_str('t', 4, ALPHA)} and {_pre_str('wd', 3, ALPHA)}",
            "translate_back(t, wd) denotes from the workdir the file t denotes from the root",
            here=h,
        ),
        f"translate_back denotation, HERE case {h}",
        weight=5,
    )
    _add(
        f"O20.1n.h{h}",
        _mk(
            "translate_normalized",
            f"{_pre_str('p', 3)} and {_pre_str('wd', 2)}",
            f"{_pre_str('p', 4, ALPHA)} and {_pre_str('wd', 3, ALPHA)}",
            "translate(p, wd) is normalised for relative p, wd",
            here=h,
        ),
        f"translate result normalised, HERE case {h}",
        weight=4,
    )
    _add(
        f"O20.3k.h{h}",
        _mk(
            "keep_affixes_translate",
            _pre_str("p", 4),
            _pre_str("p", 5, ALPHA),
            "_keep_affixes(p, translate) keeps './' and trailing '/' and the denotation",
            here=h,
        ),
        f"_keep_affixes with translate, HERE case {h}",
        weight=4,
    )
_add(
    "O20.2i",
    _mk("translate_identity", _pre_str("p", 5), _pre_str("p", 6, ALPHA), "translate is the identity on normalised root-relative paths"),
    "translate identity on normalised paths",
    weight=3,
)
_add("O20.3a", _mk("affixes_range", _pre_str("p", 6), _pre_str("p", 8), "get_affixes range and meaning"), "get_affixes")
_add(
    "O20.3b",
    _mk(
        "apply_affixes_contract",
        _pre_str("p", 4) + " and 0 <= lead_i < 4 and 0 <= trail_i < 4",
        _pre_str("p", 6) + " and 0 <= lead_i < 4 and 0 <= trail_i < 4",
        "apply_affixes raises PathError exactly in its documented cases",
    ),
    "apply_affixes contract",
)
_add("O20.4", _mk("parent_dir_nonempty", _pre_str("p", 5), _pre_str("p", 7, ALPHA), "parent_dir never empty, no trailing separator"), "parent_dir")
for h in (2, 3):
    _add(
        f"O20.7.h{h}",
        _mk(
            "amend_sequence",
            "len(p1) <= 3 and len(p2) <= 2 and all(c in '/sa' for c in p1 + p2)",
            "len(p1) <= 3 and len(p2) <= 3 and all(c in '/.sa' for c in p1 + p2)",
            "two successive amend(inp=...) calls: no announced input is swallowed by the client-side history",
            here=h,
            tq=600,
            tt=3000,
        ),
        f"api.amend de-duplication is keyed by the translated path, HERE case {h}",
        weight=4,
    )
_add(
    "O20.6",
    _mk("label_roundtrip", "len(c) <= 2 and len(w1) <= 1 and len(w2) <= 1", "len(c) <= 3 and len(w1) <= 2 and len(w2) <= 2", "Step.adjust_label / command_and_workdir round trip, also for a workdir containing the marker text"),
    "step label <-> (command, workdir) round trip",
    weight=2,
)
_add(
    "O20.5",
    _mk(
        "root_here_env",
        _pre_str("workdir", 4) + " and not workdir.startswith('/')",
        _pre_str("workdir", 6, ALPHA) + " and not workdir.startswith('/')",
        "workdir/ROOT is the root and ROOT/HERE is the workdir",
    ),
    "ROOT / HERE of Executor._run_command",
    weight=3,
)
