"""C10 - dispatch is exact: nothing ineligible starts, nothing eligible is left (E-SQL)."""

from __future__ import annotations

import json
import os
import time

import z3

from vf.runner import Ob, ObResult, Violation, enc, run_replay, write_replay
from vf.symsql.executor import Explorer, SymDB, drive
from vf.symsql.model import Wf, enums
from vf.symsql.state import concretise
from vf.symsql.values import Unsupported, bz

CLAIM = (
    "C10: on a bounded symbolic workflow database (live schema, live triggers, live SQL, real Python "
    "glue of Scheduler run natively against it), SELECT_NEXT_STEP returns only eligible steps and "
    "returns one whenever an eligible step exists (given coherent caches); the recomputations "
    "(_update_meta_safe/_after/_ready) make every cache equal to its definition from any state whose "
    "unflagged steps are locally coherent; every mutation performed by the real methods keeps "
    "'unflagged => locally coherent' (no lost wake-up)."
)
OUTSIDE = [
    "Builder.wake_job_loop (an asyncio.Event): whether the loop polls after each mutation is scheduling, not state",
    "graphs larger than the capacity bound (K node slots, D dependency edges)",
    "ORDER BY of SELECT_NEXT_STEP (priority): LIMIT 1 is modelled as an arbitrary eligible row (sound for exactness)",
]
ASSUMPTIONS = [
    "E-SQL: symbolic SQL semantics (vf/symsql), validated differentially against real SQLite on random valid states on every run",
    "pre-states satisfy the schema constraints and the graph invariants I1-I9 (DESIGN.md sections 5/C09 and 9.3); I1-I5, I7 are re-established by the obligations of C09, I6, I8, I9 are assumed",
    "stubs: Workflow._find_owning_static_tree -> None and Workflow.watch_dir -> no-op where static trees are outside (no st node in the state); FileHash.from_json results are opaque; Step.can_recycle -> True and Step.adjust_label -> identity in the try_recycle obligations; reporter coroutines return None",
    "step_need_count (a progress counter) and its triggers are not modelled",
]


def _selftest(res, seed, n=3):
    from vf.symsql import selftest

    ncmp, bad = selftest.run(seed, n)
    res.extra["esql_vs_sqlite_comparisons"] = ncmp
    if bad:
        res.inconclusive.append("E-SQL self-test disagrees with SQLite: " + bad[0][:400])


def coherence(wf: Wf, which=("safe", "ready", "need", "hash"), only_attached_need=True):
    """cache columns equal their definitions"""
    cons = []
    safe = wf.def_safe(False)
    safe_nh = wf.def_safe(True)
    need = wf.def_need()
    for j in range(wf.K):
        s = wf.steps[j]
        sp = bz(s.present)
        if "safe" in which:
            cons.append(z3.Implies(sp, (s.vals["_safe"].v == 1) == safe[j]))
            cons.append(z3.Implies(sp, (s.vals["_safe_ignoring_hold"].v == 1) == safe_nh[j]))
        if "ready" in which:
            cons.append(z3.Implies(sp, (s.vals["_ready"].v == 1) == wf.def_ready(j)))
        if "hash" in which:
            cons.append(z3.Implies(sp, (s.vals["_has_hash"].v == 1) == wf.def_has_hash(j)))
        if "need" in which:
            att = wf.attached(j)
            cons.append(z3.Implies(z3.And(sp, att), s.vals["_implied_need"].v == need[j]))
    return cons


def eligible(wf: Wf, j, threshold):
    """From the statement of C10."""
    _, StepState, Need = enums()
    s = wf.steps[j]
    safe = wf.def_safe(False)[j]
    safe_nh = wf.def_safe(True)[j]
    has_hash = wf.def_has_hash(j)
    return z3.And(
        bz(s.present),
        s.vals["state"].v == StepState.PENDING.value,
        wf.attached(j),
        wf.def_need()[j] > threshold,
        s.vals["deferred"].v == 0,
        z3.Or(safe, z3.And(has_hash, safe_nh)),
        wf.def_ready(j),
        z3.Or(has_hash, wf.resources_ok(j)),
    )


REPLAY_DB = '''
import asyncio, json
from stepup.core.sqlite3 import DBSession
from stepup.core.workflow import Workflow
from stepup.core.scheduler import Scheduler
from stepup.core.step import Step
from stepup.core.enums import StepState, Need
content = json.loads({content!r})
threshold_targets = {targets!r}

def load(db, content):
    """Load the rows of the model into the real database (constraints deferred, triggers dropped)."""
    con = db._con
    trig = con.execute("SELECT name, sql FROM sqlite_master WHERE type='trigger'").fetchall()
    ttrig = con.execute("SELECT name, sql FROM sqlite_temp_master WHERE type='trigger'").fetchall()
    for name, _ in trig + ttrig:
        con.execute(f"DROP TRIGGER {{name}}")
    con.execute("PRAGMA foreign_keys = OFF")
    con.execute("DELETE FROM node")
    for table, rows in content.items():
        try:
            con.execute(f"DELETE FROM {{table}}")
        except Exception:
            pass
        for row in rows:
            cols = list(row)
            try:
                con.execute(f"INSERT INTO {{table}} ({{', '.join(cols)}}) VALUES ({{', '.join('?' for _ in cols)}})", [row[c] for c in cols])
            except Exception as exc:
                if "no such table" not in str(exc):
                    raise
    for _, sql in trig:
        con.execute(sql)
    for _, sql in ttrig:
        con.execute(sql if "TEMP" in sql.split("TRIGGER")[0].upper() else sql.replace("CREATE TRIGGER", "CREATE TEMP TRIGGER", 1))
    # the progress counters are rebuilt from the loaded rows, as a fresh connection would do
    con.execute("DELETE FROM step_need_count")
    con.execute("INSERT INTO step_need_count (implied_need, succeeded, n) SELECT step._implied_need, step.state = 23, count(*) FROM node JOIN step ON node.i = step.node WHERE NOT node.detached GROUP BY 1, 2")
    con.execute("PRAGMA foreign_keys = ON")

async def main():
    with DBSession.open(":memory:") as db:
        wf = Workflow(db, dir_queue=None, **threshold_targets)
        await wf.initialize()
        sched = Scheduler(wf, db=db)
        await sched.initialize(None)
        async with db:
            pass
        load(db, content)
{body}
sys.exit(asyncio.run(main()))
'''


def _content_json(wf: Wf, m):
    content = concretise(wf.ctx, m)
    skip = {"check_after", "changed_after", "safe_update", "node_list", "path_list"}
    return json.dumps({k: v for k, v in content.items() if v and k not in skip})


# ---------------------------------------------------------------------------------------------
# O10.1  the selection is sound and complete on coherent caches
# ---------------------------------------------------------------------------------------------

BODY_SELECT = '''        async with db:
            row = db.execute(SELECT.replace("INDEXED BY step_dispatch", ""), (threshold,)).fetchone()
            row2 = db.execute(SELECT, (threshold,)).fetchone()
        print("selected:", row, "with index:", row2, "expected eligible node ids:", eligible_ids)
        if (row is None) != (row2 is None):
            return 1
        if row is None:
            return 1 if eligible_ids else 0
        return 0 if row[0] in eligible_ids else 1
'''


def o10_1(tier):
    import stepup.core.scheduler as sch
    import stepup.core.step as stp

    res = ObResult()
    seed = int(os.environ.get("VERIF_SEED", "0") or 0)
    _selftest(res, seed, 2)
    K, D = (4, 3) if tier == "quick" else (5, 3)
    res.bounds = f"{K} node slots (root + {K - 1}), {D} dependency edges, 2 resource requirements, 2 available resources, 2 target paths, 1 target dir; all column values symbolic"
    res.encoded += [enc(sch.SELECT_NEXT_STEP, "scheduler.SELECT_NEXT_STEP"), enc(stp.STEP_DISPATCH_WHERE, "step.STEP_DISPATCH_WHERE"), enc(sch.RESOURCE_UNAVAILABLE, "scheduler.RESOURCE_UNAVAILABLE")]
    _, StepState, Need = enums()
    wf = Wf(K=K, D=D)
    thr = z3.Int("threshold")
    base = wf.cons + wf.inv() + coherence(wf) + [z3.Or(thr == Need.OPTIONAL.value, thr == Need.DEFAULT.value)]
    from vf.symsql.dml import Engine

    eng = Engine(wf.ctx)
    sql = sch.SELECT_NEXT_STEP.replace("INDEXED BY step_dispatch", "")
    t0 = time.time()
    r = eng.execute(sql, (z3_param(thr),))
    res.extra["rows_in_selection"] = len(r.bag.rows)
    res.extra["notes"] = wf.ctx.notes
    base += [bz(a) for a in wf.ctx.assumptions]
    elig = [eligible(wf, j, thr) for j in range(K)]
    # soundness
    bad = []
    for g, vals in r.bag.rows:
        i = vals[0].v
        for j in range(K):
            bad.append(z3.And(bz(g), i == j + 1, z3.Not(elig[j])))
        # the reported has_hash flag decides CHECKING vs RUNNING
        for j in range(K):
            bad.append(z3.And(bz(g), i == j + 1, (vals[2].v == 1) != wf.def_has_hash(j)))
    v, m, dt = solve(base + [z3.Or(*bad)])
    res.q("soundness: a returned row is an eligible step (and its has_hash flag is right)", v, dt)
    if v == "sat":
        _select_violation(res, wf, m, thr, elig, "returns an ineligible step")
    none = z3.Not(z3.Or(*[bz(g) for g, _ in r.bag.rows])) if r.bag.rows else z3.BoolVal(True)
    v, m, dt = solve(base + [none, z3.Or(*elig)])
    res.q("completeness: no row returned => no step is eligible", v, dt)
    if v == "sat":
        _select_violation(res, wf, m, thr, elig, "returns nothing although a step is eligible")
    v, m, dt = solve(base + [z3.Or(*[bz(g) for g, _ in r.bag.rows])])
    res.twin("some coherent state has an eligible step that is selected", v, dt)
    if m is not None:
        res.samples.append({"selected_state": json.loads(_content_json(wf, m))})
    v, m, dt = solve(base + [none, z3.Or(*[z3.And(bz(wf.steps[j].present), wf.steps[j].vals["state"].v == StepState.PENDING.value) for j in range(K)])])
    res.twin("some coherent state has a pending step that is not eligible", v, dt)
    res.nontrivial = 2
    return res


def z3_param(term):
    from vf.symsql.values import V

    return V("i", False, term)


def solve(cons, timeout_ms=300000):
    s = z3.Solver()
    s.set("timeout", timeout_ms)
    for c in cons:
        s.add(bz(c))
    t0 = time.time()
    r = s.check()
    return str(r), (s.model() if r == z3.sat else None), time.time() - t0


def _targets_from_model(wf, m):
    from vf.symsql.state import model_bool, model_value

    tp = [model_value(wf.ctx, m, r.vals["path"]) for r in wf.t("target_path").rows if model_bool(m, r.present)]
    td = [model_value(wf.ctx, m, r.vals["path"]) for r in wf.t("target_dir").rows if model_bool(m, r.present)]
    return {"targets": tp, "target_dirs": td}


def _select_violation(res, wf, m, thr, elig, what):
    import stepup.core.scheduler as sch

    thr_v = m.eval(thr, model_completion=True).as_long()
    ids = [j + 1 for j in range(wf.K) if z3.is_true(m.eval(elig[j], model_completion=True))]
    body = f"        SELECT = {sch.SELECT_NEXT_STEP!r}\n        threshold = {thr_v}\n        eligible_ids = {ids!r}\n" + BODY_SELECT
    content = _content_json(wf, m)
    rp = write_replay("C10", "O10.1", f"select {what} {content}", REPLAY_DB.format(content=content, targets={}, body=body))
    ok, out = run_replay(rp)
    if ok:
        res.violations.append(Violation("O10.1:selection", f"SELECT_NEXT_STEP {what}", {"state": json.loads(content), "threshold": thr_v, "eligible": ids}, rp))
    else:
        res.inconclusive.append(f"selection model does not reproduce on real SQLite: {out[-400:]}")


# ---------------------------------------------------------------------------------------------
# O10.2  the recomputations are right
# ---------------------------------------------------------------------------------------------


def local_safe(wf: Wf, j, nh=False):
    """_safe of step j equals the value derived from its creator's *stored* value (one hop)."""
    _, StepState, _ = enums()
    s = wf.steps[j]
    col = "_safe_ignoring_hold" if nh else "_safe"
    terms = []
    for c in range(wf.K):
        if c == j:
            continue
        cs = wf.steps[c]
        good = z3.And(cs.vals[col].v == 1, z3.Or(cs.vals["state"].v == StepState.RUNNING.value, cs.vals["state"].v == StepState.SUCCEEDED.value))
        if not nh:
            good = z3.And(good, cs.vals["_holding"].v == 0)
        terms.append(z3.Implies(z3.And(wf.creator_is(j, c), bz(cs.present)), good))
    return (s.vals[col].v == 1) == z3.And(*terms)


def ancestor_flagged(wf: Wf, col="_check_safe"):
    """F[j]: step j or one of its creator ancestors carries the flag."""
    K = wf.K
    F = [z3.And(bz(wf.steps[j].present), wf.steps[j].vals[col].v == 1) for j in range(K)]
    for _ in range(K):
        F = [z3.Or(F[j], *[z3.And(wf.creator_is(j, c), F[c]) for c in range(K) if c != j]) for j in range(K)]
    return F


def make_scheduler(db, wf_obj=None):
    import stepup.core.scheduler as sch
    from stepup.core.trellis import Root
    from stepup.core.workflow import Workflow

    w = Workflow(db, dir_queue=None)
    object.__setattr__(w, "_root", Root(w, 1, ""))
    s = sch.Scheduler(w, db=db)
    return w, s


BODY_SAFE = '''        async with db:
            sched._update_meta_safe()
            rows = db.execute("SELECT step.node, _safe, _safe_ignoring_hold, _check_safe FROM step").fetchall()
        print("after _update_meta_safe:", rows, "expected (node, safe, safe_nh):", expected)
        got = {r[0]: (r[1], r[2]) for r in rows}
        bad = [n for n, s, snh in expected if got.get(n) != (s, snh)] + [r[0] for r in rows if r[3]]
        return 1 if bad else 0
'''


def o10_2_safe(tier):
    import stepup.core.scheduler as sch

    res = ObResult()
    K = 4 if tier == "quick" else 5
    res.bounds = f"{K} node slots; creator forest, states, hold counters, stored _safe values and flags symbolic; pre: every step that is neither flagged nor below a flagged ancestor is coherent, flagged ones arbitrary"
    res.encoded += [enc(sch.FILL_SAFE_UPDATE, "scheduler.FILL_SAFE_UPDATE"), enc(sch.APPLY_SAFE_UPDATE, "scheduler.APPLY_SAFE_UPDATE"), enc(sch.Scheduler._update_meta_safe)]
    counts = {"paths": 0}

    def body(run):
        wf = Wf(K=K, D=1, extra_caps={"step_resource": 1, "available_resource": 1, "target_path": 1})
        wf.ctx.cte_depth = K
        for c in wf.cons + wf.inv():
            run.assume(c)
        safe, safe_nh = wf.def_safe(False), wf.def_safe(True)
        F = ancestor_flagged(wf)
        for j in range(K):
            s = wf.steps[j]
            coherent = z3.And((s.vals["_safe"].v == 1) == safe[j], (s.vals["_safe_ignoring_hold"].v == 1) == safe_nh[j])
            run.assume(z3.Implies(z3.And(bz(s.present), z3.Not(F[j])), coherent))
        # creator links form a forest that reaches a non-step within K links (no creator cycles
        # among steps): stated as part of the invariant I1 for attached nodes; for detached ones:
        rank = [z3.Int(f"crk[{j}]") for j in range(K)]
        for j in range(K):
            for c in range(K):
                if c != j:
                    run.assume(z3.Implies(z3.And(bz(wf.nodes[j].present), wf.creator_is(j, c)), rank[c] < rank[j]))
        db = SymDB(wf.ctx, run)
        w, s = make_scheduler(db)

        def thunk():
            s._update_meta_safe()
            return wf, safe, safe_nh

        return db, thunk

    def on_path(pr):
        counts["paths"] += 1
        if pr.outcome == "raise":
            v, m, dt = pr.run.query()
            res.q(f"_update_meta_safe raises {type(pr.value).__name__}", "sat" if v == "sat" else v, dt)
            if v == "sat":
                res.inconclusive.append(f"_update_meta_safe raised on a feasible path: {pr.value!r}")
            return
        wf, safe, safe_nh = pr.value
        _unwinding(res, pr, wf)
        bad = []
        for j in range(wf.K):
            s = wf.steps[j]
            sp = bz(s.present)
            bad.append(z3.And(sp, s.vals["_check_safe"].v != 0))
            bad.append(z3.And(sp, (s.vals["_safe"].v == 1) != safe[j]))
            bad.append(z3.And(sp, (s.vals["_safe_ignoring_hold"].v == 1) != safe_nh[j]))
        v, m, dt = pr.run.query(z3.Or(*bad))
        res.q(f"path {counts['paths']}: after _update_meta_safe every step's _safe/_safe_ignoring_hold equals its definition and no flag remains", v, dt)
        if v == "sat":
            _safe_violation(res, pr, wf, m, safe, safe_nh)

    ex = Explorer(max_paths=40)
    try:
        ex.explore(body, on_path)
    except Unsupported as exc:
        res.inconclusive.append(f"outside the SQL subset: {exc}")
    res.extra["paths"] = counts["paths"]
    res.extra["solver_checks"] = ex.n_checks
    res.twin("the recomputation path (some step flagged) is explored", "sat" if counts["paths"] >= 2 else "unsat", 0.0)
    res.nontrivial = len(res.queries)
    return res


def _unwinding(res, pr, wf):
    for desc, cond in wf.ctx.unwinding:
        v, m, dt = pr.run.query(bz(cond))
        res.q(f"unwinding assertion: {desc}", v, dt)
        if v == "sat":
            res.inconclusive.append(f"unwinding bound too small: {desc}")


def _initial_content(pr, wf0_builder, m):
    raise NotImplementedError


def _safe_violation(res, pr, wf, m, safe, safe_nh):
    """Replay on the real Scheduler: rebuild the INITIAL state of this path from the model."""
    K = wf.K
    wf0 = Wf(K=K, D=1, extra_caps={"step_resource": 1, "available_resource": 1, "target_path": 1})
    content = _content_json(wf0, m)
    expected = []
    for j in range(K):
        if z3.is_true(m.eval(bz(wf0.steps[j].present), model_completion=True)):
            expected.append((j + 1, int(z3.is_true(m.eval(safe[j], model_completion=True))), int(z3.is_true(m.eval(safe_nh[j], model_completion=True)))))
    body = f"        expected = {expected!r}\n" + BODY_SAFE
    rp = write_replay("C10", "O10.2", f"safe {content}", REPLAY_DB.format(content=content, targets={}, body=body))
    ok, out = run_replay(rp)
    state = json.loads(content)
    if ok:
        kind = _classify_safe(state)
        if not any(v.key == f"O10.2:{kind}" for v in res.violations):
            res.violations.append(Violation(f"O10.2:{kind}", "after _update_meta_safe a step's _safe disagrees with its definition: " + out.strip().splitlines()[-1][:300], {"state": state, "expected": expected}, rp))
    else:
        res.inconclusive.append(f"safe-recompute model does not reproduce: {out[-400:]}")


def _classify_safe(state):
    """The known finding: a flagged step below a flagged ancestor keeps a stale-low _safe because
    its seed row (derived from a stale stored value) wins MIN() over the fresh recursive row."""
    steps = {s["node"]: s for s in state.get("step", [])}
    nodes = {n["i"]: n for n in state.get("node", [])}
    for n, s in steps.items():
        if not s["_check_safe"]:
            continue
        c = nodes[n].get("creator")
        seen = set()
        while c in steps and c not in seen:
            seen.add(c)
            if steps[c]["_check_safe"]:
                return "stale-seed-under-flagged-ancestor"
            c = nodes[c].get("creator")
    return "other"


OBLIGATIONS = [
    Ob("O10.1", o10_1, "SELECT_NEXT_STEP sound and complete on coherent caches", weight=3),
    Ob("O10.2s", o10_2_safe, "_update_meta_safe recomputes _safe/_safe_ignoring_hold exactly", weight=4, timeout={"quick": 1500, "thorough": 5400}),
]


# ---------------------------------------------------------------------------------------------
# O10.2r / O10.2a : _update_meta_ready and _update_meta_after
# ---------------------------------------------------------------------------------------------


def _explore(res, name, K, D, pre, action, post, extra_caps=None, max_paths=300, on_violation=None, labels=None, cte_depth=None, allow_integrity=False, fixed=None, allow_exc=(), lazy_enums=False, internal_error_violates=False):
    """Generic inductive-step driver: fresh symbolic state, assume pre, run action natively, check post."""
    counts = {"paths": 0, "raised": 0}
    if lazy_enums:
        from vf.symsql import lazyenum

        lazyenum.install()

    def body(run):
        wf = Wf(K=K, D=D, extra_caps=extra_caps or {}, labels=labels, fixed=fixed)
        wf.ctx.cte_depth = cte_depth or K
        for c in wf.cons + wf.inv():
            run.assume(c)
        for c in pre(wf):
            run.assume(c)
        db = SymDB(wf.ctx, run)
        w, s = make_scheduler(db)
        aux = {}

        def thunk():
            action(wf, w, s, aux)
            return wf, aux

        return db, thunk

    def on_path(pr):
        counts["paths"] += 1
        if pr.outcome == "raise":
            counts["raised"] += 1
            exc = pr.value
            import sqlite3

            from stepup.core.exceptions import UsageError

            if isinstance(exc, (UsageError, *allow_exc)) or (allow_integrity and isinstance(exc, sqlite3.IntegrityError)):
                return  # a rejected request: allowed outcome
            v, m, dt = pr.run.query()
            res.q(f"{name}: no internal error ({type(exc).__name__}: {str(exc)[:80]})", "sat" if v == "sat" else v, dt)
            if v == "sat" and internal_error_violates and on_violation is not None and type(exc).__name__ in ("ConsistencyError", "AssertionError", "IntegrityError"):
                # an internal error from a state that satisfies the invariants: a violation if it replays
                wf0 = Wf(K=K, D=D, extra_caps=extra_caps or {}, labels=labels, fixed=fixed)
                on_violation(res, wf0, m, _content_json(wf0, m), ["raised " + type(exc).__name__], {"raised": exc})
            elif v == "sat":
                res.inconclusive.append(f"{name}: raised {type(exc).__name__}: {exc} on a feasible path (state: {_content_json(Wf(K=K, D=D, extra_caps=extra_caps or {}, labels=labels), m)[:600]})")
            return
        wf, aux = pr.value
        _unwinding(res, pr, wf)
        bad = post(wf, aux)
        v, m, dt = pr.run.query(z3.Or(*bad) if bad else z3.BoolVal(False))
        res.q(f"{name}: post-condition on path {counts['paths']}", v, dt)
        if v == "sat":
            which = [i for i, b in enumerate(bad) if z3.is_true(m.eval(b, model_completion=True))]
            wf0 = Wf(K=K, D=D, extra_caps=extra_caps or {}, labels=labels, fixed=fixed)
            content = _content_json(wf0, m)
            if on_violation is not None:
                on_violation(res, wf0, m, content, which, aux)
            else:
                res.inconclusive.append(f"{name}: post-condition fails (clauses {which}) from state {content[:900]} (no replay defined)")

    class _State:
        """What on_path records, carried from forked exploration workers back to this process."""

        def mark(self):
            return (len(res.queries), len(res.violations), len(res.inconclusive), len(res.samples), dict(counts))

        def since(self, mark):
            q, v, i, sm, c = mark
            return (res.queries[q:], res.violations[v:], res.inconclusive[i:], res.samples[sm:], {k: counts[k] - c.get(k, 0) for k in counts})

        def absorb(self, payload):
            q, v, i, sm, c = payload
            res.queries.extend(q)
            for viol in v:
                if not any(x.key == viol.key for x in res.violations):
                    res.violations.append(viol)
            res.inconclusive.extend(i)
            res.samples.extend(sm)
            for k, n in c.items():
                counts[k] = counts.get(k, 0) + n

    workers = int(os.environ.get("VF_WORKERS", "1") or 1)
    ex = Explorer(max_paths=max_paths)
    ex.lazy_text = bool(lazy_enums)  # labels stay symbolic only where the C boundaries are wrapped (lazyenum.install)
    try:
        ex.explore(body, on_path, workers=workers, state=_State())
    except Unsupported as exc:
        res.inconclusive.append(f"{name}: outside the encoded subset: {exc}")
    res.extra.setdefault("paths", {})[name] = counts["paths"]
    res.extra.setdefault("workers", {})[name] = workers
    return counts


def _replay_generic(res, oid, key, content, body_code, what, targets=None):
    if any(v.key == key for v in res.violations):
        return  # one replayed witness per finding is enough
    rp = write_replay("C" + oid[1:3], oid, f"{key} {content}", REPLAY_DB.format(content=content, targets=targets or {}, body=body_code))
    ok, out = run_replay(rp)
    if ok:
        if not any(v.key == key for v in res.violations):
            res.violations.append(Violation(key, what + ": " + out.strip().splitlines()[-1][:300], {"state": json.loads(content)}, rp))
    else:
        res.inconclusive.append(f"{key}: model does not reproduce on the real code: {out[-500:]}")


BODY_READY = '''        async with db:
            sched._update_meta_ready()
            got = dict(db.execute("SELECT node, _ready FROM step").fetchall())
            flags = db.execute("SELECT count(*) FROM step WHERE _check_ready").fetchone()[0]
            want = {}
            for (n,) in db.execute("SELECT node FROM step").fetchall():
                blocked = db.execute("""SELECT count(*) FROM dependency d JOIN file f ON f.node = d.source JOIN node fn ON fn.i = d.source
                    LEFT JOIN dynamic_dep dd ON dd.i = d.i WHERE d.sink = ? AND (f.state = 18
                    OR (dd.i IS NOT NULL AND NOT fn.detached AND f.state IN (15, 17))
                    OR (dd.i IS NULL AND (fn.detached OR f.state NOT IN (16, 14))))""", (n,)).fetchone()[0]
                want[n] = int(blocked == 0)
        print("_ready after recompute:", got, "definition:", want, "flags left:", flags)
        return 1 if (got != want or flags) else 0
'''


def o10_2_ready(tier):
    import stepup.core.scheduler as sch
    import stepup.core.step as stp

    res = ObResult()
    K, D = (4, 3) if tier == "quick" else (4, 4)
    res.bounds = f"{K} node slots, {D} dependency edges (initial or dynamic); pre: every step without _check_ready has _ready equal to its definition"
    res.encoded += [enc(sch.RECOMPUTE_READY, "scheduler.RECOMPUTE_READY"), enc(stp.UNAVAILABLE_INPUT_WHERE, "step.UNAVAILABLE_INPUT_WHERE"), enc(sch.Scheduler._update_meta_ready)]

    def pre(wf):
        return [z3.Implies(z3.And(bz(wf.steps[j].present), wf.steps[j].vals["_check_ready"].v == 0), (wf.steps[j].vals["_ready"].v == 1) == wf.def_ready(j)) for j in range(wf.K)]

    def action(wf, w, s, aux):
        s._update_meta_ready()

    def post(wf, aux):
        bad = []
        for j in range(wf.K):
            sp = bz(wf.steps[j].present)
            bad.append(z3.And(sp, wf.steps[j].vals["_check_ready"].v != 0))
            bad.append(z3.And(sp, (wf.steps[j].vals["_ready"].v == 1) != wf.def_ready(j)))
        return bad

    def viol(res, wf0, m, content, which, aux):
        _replay_generic(res, "O10.2r", "O10.2r:ready", content, BODY_READY, "after _update_meta_ready a step's _ready disagrees with its definition")

    c = _explore(res, "_update_meta_ready", K, D, pre, action, post, on_violation=viol)
    res.twin("the recomputation is explored", "sat" if c["paths"] >= 2 else "unsat", 0.0)
    res.nontrivial = len(res.queries)
    return res


def consumer_flagged(wf: Wf, j):
    """some attached step that consumes an output of step j carries _check_after"""
    terms = []
    for f in range(wf.K):
        for t2 in range(wf.K):
            if t2 == j:
                continue
            e = z3.And(wf.dep_edge(j, f), wf.dep_edge(f, t2), bz(wf.steps[t2].present), wf.attached(t2))
            terms.append(z3.And(e, wf.steps[t2].vals["_check_after"].v == 1))
    return z3.Or(*terms) if terms else z3.BoolVal(False)


def after_invariant(wf: Wf):
    """INV_after: an attached step that is not flagged, and none of whose attached consumers is
    flagged, satisfies the one-hop need equation on the cached values.  (A flagged consumer is
    recomputed and -- in the first round unconditionally -- pushes the recomputation upstream.)"""
    loc = wf.local_need()
    out = []
    for j in range(wf.K):
        s = wf.steps[j]
        quiet = z3.And(bz(s.present), wf.attached(j), s.vals["_check_after"].v == 0, z3.Not(consumer_flagged(wf, j)))
        out.append(z3.Implies(quiet, s.vals["_implied_need"].v == loc[j]))
    return out


BODY_AFTER = '''        async with db:
            sched._update_meta_after()
            rows = db.execute("SELECT step.node, _implied_need, _check_after FROM step JOIN node ON node.i = step.node WHERE NOT node.detached").fetchall()
        print("after _update_meta_after (node, _implied_need, flag):", rows, "definition:", expected)
        got = {r[0]: r[1] for r in rows}
        bad = [n for n, v in expected if got.get(n) != v] + [r[0] for r in rows if r[2]]
        return 1 if bad else 0
'''


def o10_2_after(tier):
    import stepup.core.scheduler as sch

    res = ObResult()
    K, D = (4, 3) if tier == "quick" else (4, 4)
    res.bounds = f"{K} node slots, {D} dependency edges, 2 target paths, 1 target directory; pre: every attached step without _check_after satisfies the one-hop equation on the cached values"
    res.encoded += [enc(sch.UPDATE_CHECK_AFTER, "scheduler.UPDATE_CHECK_AFTER"), enc(sch.PROPAGATE_CHECK_AFTER, "scheduler.PROPAGATE_CHECK_AFTER"), enc(sch.SEED_CHECK_AFTER, "scheduler.SEED_CHECK_AFTER"), enc(sch.Scheduler._update_meta_after)]

    def pre(wf):
        return after_invariant(wf)

    def action(wf, w, s, aux):
        aux["need"] = wf.def_need()  # the definition does not read the cache columns
        s._update_meta_after()

    def post(wf, aux):
        need = aux["need"]
        bad = []
        for j in range(wf.K):
            s = wf.steps[j]
            sp = bz(s.present)
            bad.append(z3.And(sp, s.vals["_check_after"].v != 0))
            bad.append(z3.And(sp, wf.attached(j), s.vals["_implied_need"].v != need[j]))
        return bad

    def viol(res, wf0, m, content, which, aux):
        need = wf0.def_need()
        expected = [(j + 1, m.eval(need[j], model_completion=True).as_long()) for j in range(wf0.K) if z3.is_true(m.eval(z3.And(bz(wf0.steps[j].present), wf0.attached(j)), model_completion=True))]
        body = f"        expected = {expected!r}\n" + BODY_AFTER
        _replay_generic(res, "O10.2a", "O10.2a:need", content, body, "after _update_meta_after a step's _implied_need disagrees with the least fixed point", targets=_targets_from_model(wf0, m))

    c = _explore(res, "_update_meta_after", K, D, pre, action, post, on_violation=viol, max_paths=600)
    res.twin("the recomputation is explored", "sat" if c["paths"] >= 2 else "unsat", 0.0)
    res.nontrivial = len(res.queries)
    return res


OBLIGATIONS += [
    Ob("O10.2r", o10_2_ready, "_update_meta_ready recomputes _ready exactly", weight=3, timeout={"quick": 1500, "thorough": 5400}),
    Ob("O10.2a", o10_2_after, "_update_meta_after computes the least fixed point of the need equation (also C11/O11.1)", weight=5, timeout={"quick": 2400, "thorough": 7200}),
]


# ---------------------------------------------------------------------------------------------
# O10.3  no lost wake-up: every mutation performed by the real methods keeps the flag invariants
# ---------------------------------------------------------------------------------------------


def flag_invariants(wf: Wf, parts=("ready", "hash", "safe", "after")):
    """INV_flags: whatever is not flagged for recomputation agrees with its definition."""
    out = []
    safe, safe_nh = wf.def_safe(False), wf.def_safe(True)
    F = ancestor_flagged(wf)
    for j in range(wf.K):
        s = wf.steps[j]
        sp = bz(s.present)
        if "ready" in parts:
            out.append(z3.Implies(z3.And(sp, s.vals["_check_ready"].v == 0), (s.vals["_ready"].v == 1) == wf.def_ready(j)))
        if "hash" in parts:
            out.append(z3.Implies(sp, (s.vals["_has_hash"].v == 1) == wf.def_has_hash(j)))
        if "safe" in parts:
            coherent = z3.And((s.vals["_safe"].v == 1) == safe[j], (s.vals["_safe_ignoring_hold"].v == 1) == safe_nh[j])
            out.append(z3.Implies(z3.And(sp, z3.Not(F[j])), coherent))
    if "after" in parts:
        out += after_invariant(wf)
    return out


class _SymEnum:
    """stands for an enum member whose .value is symbolic"""

    def __init__(self, term):
        from vf.symsql.values import V

        self.value = V("i", False, term)
        self.name = "SYM"


def _node(cls, w, wf, run, name, kind):
    """A node object of class `cls` whose id is symbolic among the present nodes of that kind."""
    from vf.symsql.values import V

    i = z3.Int(name)
    run.assume(z3.Or(*[z3.And(i == j + 1, wf.is_kind(j, kind)) for j in range(wf.K)]))
    return cls(w, V("i", False, i), "lbl"), i


def mutations():
    """name -> function(wf, w, s, run, aux) performing ONE mutation through the real methods."""
    from stepup.core.file import File
    from stepup.core.step import Step
    from stepup.core.trellis import Node

    FileState, StepState, Need = enums()
    M = {}

    def file_set_state(wf, w, s, run, aux):
        f, fi = _node(File, w, wf, run, "m.file", "file")
        st = z3.Int("m.newstate")
        run.assume(z3.And(st >= min(FileState).value, st <= max(FileState).value))
        # File.set_state only ever moves a file within its role (static / output / volatile);
        # a change of role goes through File.initialize_row, which re-creates the edges.
        from stepup.core.enums import FILE_ROLE_BY_STATE

        def role(x):
            return z3.Sum([z3.If(x == fs.value, int(r.value), 0) for fs, r in FILE_ROLE_BY_STATE.items()])

        for j in range(wf.K):
            run.assume(z3.Implies(fi == j + 1, role(st) == role(wf.files[j].vals["state"].v)))
        f.set_state(_SymEnum(st))

    M["File.set_state"] = file_set_state

    def step_set_state(wf, w, s, run, aux):
        stp, _ = _node(Step, w, wf, run, "m.step", "step")
        st = z3.Int("m.newstate")
        run.assume(z3.Or(*[st == x.value for x in StepState]))
        stp.set_state(_SymEnum(st), False)

    M["Step.set_state"] = step_set_state

    def add_source_fs(wf, w, s, run, aux):
        stp, _ = _node(Step, w, wf, run, "m.step", "step")
        f, _ = _node(File, w, wf, run, "m.file", "file")
        stp.add_source(f)

    M["Step.add_source(file)"] = add_source_fs

    def add_source_sf(wf, w, s, run, aux):
        stp, _ = _node(Step, w, wf, run, "m.step", "step")
        f, _ = _node(File, w, wf, run, "m.file", "file")
        f.add_source(stp)

    M["File.add_source(step)"] = add_source_sf

    def del_sources(wf, w, s, run, aux):
        stp, _ = _node(Step, w, wf, run, "m.step", "step")
        f, _ = _node(File, w, wf, run, "m.file", "file")
        stp.del_sources([f])

    M["Step.del_sources([file])"] = del_sources

    def del_all_sources_file(wf, w, s, run, aux):
        f, _ = _node(File, w, wf, run, "m.file", "file")
        f.del_all_sources()

    M["File.del_all_sources"] = del_all_sources_file

    def dyn_ins(wf, w, s, run, aux):
        from vf.symsql.values import V

        d = z3.Int("m.dep")
        run.assume(z3.Or(*[z3.And(d == k + 1, bz(wf.deps[k].present), z3.Not(wf.is_dyn(k))) for k in range(wf.D)]))
        w.db.executemany("INSERT INTO dynamic_dep VALUES (?)", [(V("i", False, d),)])

    M["INSERT dynamic_dep"] = dyn_ins

    def dyn_del(wf, w, s, run, aux):
        from vf.symsql.values import V

        d = z3.Int("m.dep")
        run.assume(z3.And(d >= 1, d <= wf.D))
        w.db.executemany("DELETE FROM dynamic_dep WHERE i = ?", [(V("i", False, d),)])

    M["DELETE dynamic_dep"] = dyn_del

    def set_hash(wf, w, s, run, aux):
        stp, _ = _node(Step, w, wf, run, "m.step", "step")

        class H:
            def to_json(self):
                from vf.symsql import live

                return live.hash_json_pool()[0]

        stp.set_hash(H())

    M["Step.set_hash"] = set_hash

    def delete_hash(wf, w, s, run, aux):
        stp, _ = _node(Step, w, wf, run, "m.step", "step")
        stp.delete_hash()

    M["Step.delete_hash"] = delete_hash

    def hold(wf, w, s, run, aux):
        stp, i = _node(Step, w, wf, run, "m.step", "step")
        run.assume(z3.Or(*[z3.And(i == j + 1, wf.steps[j].vals["state"].v == StepState.RUNNING.value) for j in range(wf.K)]))
        stp.hold()

    M["Step.hold"] = hold

    def release(wf, w, s, run, aux):
        stp, _ = _node(Step, w, wf, run, "m.step", "step")
        stp.release()

    M["Step.release"] = release

    def step_detach(wf, w, s, run, aux):
        stp, i = _node(Step, w, wf, run, "m.step", "step")
        stp.detach()

    M["Step.detach"] = step_detach

    def file_detach(wf, w, s, run, aux):
        # a file that no step produces (static declarations are detached this way)
        f, fi = _node(File, w, wf, run, "m.file", "file")
        for j in range(wf.K):
            run.assume(z3.Implies(fi == j + 1, z3.Not(z3.Or(*[z3.And(wf.dep_edge(a, j), bz(wf.steps[a].present)) for a in range(wf.K)]))))
        f.detach()

    M["File.detach (static)"] = file_detach

    def drop_dynamic_sink(wf, w, s, run, aux):
        # Step.reset_for_rerun: an amended output loses its producer edge and is detached
        stp, si = _node(Step, w, wf, run, "m.step", "step")
        f, fi = _node(File, w, wf, run, "m.file", "file")
        # the step is the producer of the file (the loop in reset_for_rerun walks its own sink edges)
        run.assume(z3.Or(*[z3.And(si == a + 1, fi == b + 1, wf.dep_edge(a, b)) for a in range(wf.K) for b in range(wf.K)]))
        f.del_sources([stp])
        f.detach()

    M["File.del_sources([step]) + detach"] = drop_dynamic_sink

    def step_reattach(wf, w, s, run, aux):
        stp, i = _node(Step, w, wf, run, "m.step", "step")
        c, ci = _node(Step, w, wf, run, "m.creator", "step")
        run.assume(i != ci)
        # as in Trellis.try_recycle: a detached node is taken over by an attached creator
        for j in range(wf.K):
            run.assume(z3.Implies(i == j + 1, wf.nodes[j].vals["detached"].v == 1))
            run.assume(z3.Implies(ci == j + 1, wf.nodes[j].vals["detached"].v == 0))
        stp.reattach(c)

    M["Step.reattach(step)"] = step_reattach

    def set_duration(wf, w, s, run, aux):
        stp, _ = _node(Step, w, wf, run, "m.step", "step")
        stp.set_duration(2.0)

    M["Step.set_duration"] = set_duration
    return M


BODY_MUT = '''        from stepup.core.file import File
        from stepup.core.enums import FileState, StepState
        print("mutation:", mutation, "arguments:", margs)
        def coherent():
            bad = []
            for n, ready, cready in db.execute("SELECT node, _ready, _check_ready FROM step").fetchall():
                blocked = db.execute("""SELECT count(*) FROM dependency d JOIN file f ON f.node = d.source JOIN node fn ON fn.i = d.source
                    LEFT JOIN dynamic_dep dd ON dd.i = d.i WHERE d.sink = ? AND (f.state = 18
                    OR (dd.i IS NOT NULL AND NOT fn.detached AND f.state IN (15, 17))
                    OR (dd.i IS NULL AND (fn.detached OR f.state NOT IN (16, 14))))""", (n,)).fetchone()[0]
                if not cready and ready != int(blocked == 0):
                    bad.append(("ready", n))
            for n, hh in db.execute("SELECT node, _has_hash FROM step").fetchall():
                if hh != db.execute("SELECT count(*) FROM step_hash WHERE node = ?", (n,)).fetchone()[0]:
                    bad.append(("has_hash", n))
            return bad
        async with db:
            before = coherent()
            run_mutation(wf, db)
            after = coherent()
            # let the scheduler recompute and compare with a recomputation from scratch
            sched._update_meta_safe(); sched._update_meta_after(); sched._update_meta_ready()
            inc = db.execute("SELECT node, _safe, _safe_ignoring_hold, _implied_need, _ready FROM step JOIN node ON node.i = step.node WHERE NOT node.detached ORDER BY 1").fetchall()
            db.execute("UPDATE step SET _check_safe = 1, _check_after = 1, _check_ready = 1")
            sched._update_meta_safe(); sched._update_meta_after(); sched._update_meta_ready()
            full = db.execute("SELECT node, _safe, _safe_ignoring_hold, _implied_need, _ready FROM step JOIN node ON node.i = step.node WHERE NOT node.detached ORDER BY 1").fetchall()
        print("incoherent before:", before, "after:", after)
        print("incremental recomputation:", inc)
        print("recomputation from scratch:", full)
        return 1 if (inc != full or (after and not before)) else 0
'''


DEEP = ("Step.detach", "Step.reattach(step)", "Step.hold", "Step.release")


def mk_o10_3(name):
    def fn(tier):
        import stepup.core.step as stp

        res = ObResult()
        if name == "Step.reattach(step)":
            K, D = (4, 3) if tier == "quick" else (5, 3)  # 540 paths at K=5: thorough only
        elif name in DEEP:
            K, D = (5, 3)  # measured; K=6 does not complete within the time limit
        else:
            K, D = (4, 3) if tier == "quick" else (4, 4)
        res.bounds = f"mutation {name}: {K} node slots, {D} dependency edges; from any state satisfying the schema, I1-I9 and INV_flags; node ids, new states and endpoints symbolic"
        res.encoded += [enc(stp.STEP_SCHEMA, "step.STEP_SCHEMA (triggers)"), enc(stp.RECURSIVE_CHECK_WITH_PRODUCTS, "step.RECURSIVE_CHECK_WITH_PRODUCTS"), enc(stp.RECURSIVE_CHECK_AFTER_SOURCES, "step.RECURSIVE_CHECK_AFTER_SOURCES")]
        fn_m = mutations()[name]

        def pre(wf):
            rank = [z3.Int(f"crk[{j}]") for j in range(wf.K)]
            cons = list(flag_invariants(wf))
            for j in range(wf.K):
                for c in range(wf.K):
                    if c != j:
                        cons.append(z3.Implies(z3.And(bz(wf.nodes[j].present), wf.creator_is(j, c)), rank[c] < rank[j]))
            return cons

        def action(wf, w, s, aux):
            fn_m(wf, w, s, w.db.run, aux)

        def post(wf, aux):
            return [z3.Not(c) for c in flag_invariants(wf)]

        def viol(res, wf0, m, content, which, aux):
            margs = {}
            for v in ("m.file", "m.step", "m.creator", "m.newstate", "m.dep"):
                margs[v] = m.eval(z3.Int(v), model_completion=True).as_long()
            body = f"        mutation = {name!r}\n        margs = {margs!r}\n" + _MUT_RUNNER + BODY_MUT
            _replay_generic(res, "O10.3", f"O10.3:{name}", content, body, f"{name} leaves a cached scheduling attribute stale without flagging it", targets=_targets_from_model(wf0, m))

        c = _explore(res, name, K, D, pre, action, post, on_violation=viol, max_paths=400, allow_integrity=True)
        res.twin("mutation paths explored", "sat" if c["paths"] >= 1 else "unsat", 0.0)
        res.nontrivial = len(res.queries)
        return res

    return fn


_MUT_RUNNER = '''        def run_mutation(wf, db):
            from stepup.core.file import File
            from stepup.core.step import Step
            from stepup.core.enums import FileState, StepState
            from stepup.core.hash import StepHash
            def lab(i):
                return db.execute("SELECT label FROM node WHERE i = ?", (i,)).fetchone()[0]
            f = File(wf, margs["m.file"], lab(margs["m.file"])) if db.execute("SELECT 1 FROM file WHERE node = ?", (margs["m.file"],)).fetchone() else None
            s = Step(wf, margs["m.step"], lab(margs["m.step"])) if db.execute("SELECT 1 FROM step WHERE node = ?", (margs["m.step"],)).fetchone() else None
            c = Step(wf, margs["m.creator"], lab(margs["m.creator"])) if db.execute("SELECT 1 FROM step WHERE node = ?", (margs["m.creator"],)).fetchone() else None
            m = mutation
            if m == "File.set_state": f.set_state(FileState(margs["m.newstate"]))
            elif m == "Step.set_state": s.set_state(StepState(margs["m.newstate"]), False)
            elif m == "Step.add_source(file)": s.add_source(f)
            elif m == "File.add_source(step)": f.add_source(s)
            elif m == "Step.del_sources([file])": s.del_sources([f])
            elif m == "File.del_all_sources": f.del_all_sources()
            elif m == "INSERT dynamic_dep": db.execute("INSERT INTO dynamic_dep VALUES (?)", (margs["m.dep"],))
            elif m == "DELETE dynamic_dep": db.execute("DELETE FROM dynamic_dep WHERE i = ?", (margs["m.dep"],))
            elif m == "Step.set_hash": s.set_hash(StepHash(b"x" * 32, None, b"y" * 32, None))
            elif m == "Step.delete_hash": s.delete_hash()
            elif m == "Step.hold": s.hold()
            elif m == "Step.release": s.release()
            elif m == "Step.detach": s.detach()
            elif m == "File.detach (static)": f.detach()
            elif m == "File.del_sources([step]) + detach": f.del_sources([s]); f.detach()
            elif m == "Step.reattach(step)": s.reattach(c)
            elif m == "Step.set_duration": s.set_duration(2.0)
            else: raise SystemExit(2)
'''

MUTATION_NAMES = [
    "File.set_state", "Step.set_state", "Step.add_source(file)", "File.add_source(step)", "Step.del_sources([file])",
    "File.del_all_sources", "INSERT dynamic_dep", "DELETE dynamic_dep", "Step.set_hash", "Step.delete_hash", "Step.hold",
    "Step.release", "Step.detach", "File.detach (static)", "File.del_sources([step]) + detach", "Step.reattach(step)", "Step.set_duration",
]
OBLIGATIONS += [
    Ob(f"O10.3.{k}", mk_o10_3(n), f"no lost wake-up: {n} keeps 'unflagged => coherent'", weight=6 if n in DEEP else 3, timeout={"quick": 2400, "thorough": 10800})
    for k, n in enumerate(MUTATION_NAMES)
]
