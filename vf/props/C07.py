"""C07 - a successful build leaves no orphaned outputs behind (graph side, E-SQL)."""

from __future__ import annotations

import z3

from vf.props import C09, C10, C11
from vf.runner import Ob, ObResult
from vf.symsql.model import enums
from vf.symsql.values import bz

CLAIM = (
    "C07 (graph side): from any database state within the bound the real Workflow.delete_detached reaches "
    "its fixed point: no detached node without products and without sinks survives (so every surviving "
    "detached node is held, directly or through other survivors, by an attached consumer or sits on a "
    "cycle of creator/dependency links), no attached node is deleted, every deleted file that was "
    "VOLATILE is queued for removal unconditionally and every deleted BUILT/OUTDATED file with its recorded "
    "hash, together with its parent directory, nothing else is queued, a surviving step that lost a "
    "product loses its stored hash, and the invariants of C09 hold afterwards; revert_optional_steps "
    "(= C11/O11.4) reverts exactly the executed optional steps and queues exactly their outputs.  What "
    "is then removed from disk, and only when unmodified, is C06."
)
OUTSIDE = [
    "removal from disk (C06 decides that it is attempted safely)",
    "static trees (Workflow.delete_detached's first loop): no 'st' node in the bounded state",
    "detachment itself: which nodes a changed plan detaches is decided by the plan's own run (reset_for_rerun), C09 covers Node.detach",
]
ASSUMPTIONS = C10.ASSUMPTIONS

JUDGE_DELETE = '''        def JUDGE(S0, S1, margs):
            bad = []
            for n, r in S1["node"].items():
                if r[4] and n != 1:
                    has_product = any(x[3] == n for x in S1["node"].values())
                    has_sink = any(a == n for _, a, b, _ in S1["dep"])
                    if not has_product and not has_sink: bad.append(("detached leaf survives", n))
            for n, r in S0["node"].items():
                if not r[4] and n not in S1["node"]: bad.append(("attached node deleted", n))
            queue = dict(wf.to_be_deleted)
            for f, r in S0["file"].items():
                lab = S0["node"][f][2]
                gone = f not in S1["node"]
                if gone and r[1] == 18 and (lab not in queue or queue[lab] is not None): bad.append(("deleted volatile file not queued", lab))
                if gone and r[1] in (16, 17) and queue.get(lab) is None: bad.append(("deleted output not queued with its hash", lab))
                if gone and "/" in lab and lab.rsplit("/", 1)[0] + "/" not in queue: bad.append(("parent directory not queued", lab))
                if not gone and lab in queue: bad.append(("surviving file queued", lab))
            for s, r in S1["step"].items():
                lost = any(x[3] == s and n not in S1["node"] for n, x in S0["node"].items())
                if lost and r[3]: bad.append(("survivor that lost a product keeps its hash", s))
            return bad
'''


def delete_post(wf, aux):
    FileState, StepState, Need = enums()
    pre = aux["pre"]
    pn, pf = pre["node"].rows, pre["file"].rows
    K = wf.K
    bad = list(C09.inv_post(wf, aux))
    queue = aux.get("queue", {})
    pool = wf.ctx.pool
    for j in range(1, K):
        n = wf.nodes[j]
        has_product = z3.Or(*[z3.And(bz(wf.nodes[c].present), wf.creator_is(c, j)) for c in range(K) if c != j])
        has_sink = z3.Or(*[wf.dep_edge(j, m) for m in range(K)])
        bad.append(z3.And(bz(n.present), n.vals["detached"].v == 1, z3.Not(has_product), z3.Not(has_sink)))
        bad.append(z3.And(bz(pn[j].present), pn[j].vals["detached"].v == 0, z3.Not(bz(n.present))))
        gone = z3.And(bz(pn[j].present), z3.Not(bz(n.present)))
        # files: queueing (the queue is a python dict, concrete on this path)
        st = pf[j].vals["state"].v
        isfile = bz(pf[j].present)
        for name in wf.labels:
            lab = pn[j].vals["label"].v == pool.atom(name)
            inq = name in queue
            if not inq:
                bad.append(z3.And(isfile, lab, gone, z3.Or(st == FileState.VOLATILE.value, st == FileState.BUILT.value, st == FileState.OUTDATED.value)))
            else:
                bad.append(z3.And(isfile, lab, z3.Not(gone)))
                bad.append(z3.And(isfile, lab, gone, z3.Not(z3.Or(st == FileState.VOLATILE.value, st == FileState.BUILT.value, st == FileState.OUTDATED.value))))
                if queue[name] is None:
                    bad.append(z3.And(isfile, lab, gone, st != FileState.VOLATILE.value))
                else:
                    bad.append(z3.And(isfile, lab, gone, st == FileState.VOLATILE.value))
            if "/" in name and (name.rsplit("/", 1)[0] + "/") not in queue:
                bad.append(z3.And(isfile, lab, gone))
        # a surviving step that lost a product has no stored hash
        lost = z3.Or(*[z3.And(bz(pn[c].present), z3.Not(bz(wf.nodes[c].present)), z3.Not(bz(pn[c].vals["creator"].n)), pn[c].vals["creator"].v == j + 1) for c in range(K) if c != j])
        bad.append(z3.And(bz(wf.steps[j].present), lost, wf.steps[j].vals["_has_hash"].v == 1))
    return bad


def o7_1(tier):
    ops = C09.operations

    def patched():
        OPS = ops()
        base = OPS["delete_detached"]

        def run(wf, w, s, run_, aux):
            for j in range(wf.K):
                run_.assume(z3.Not(wf.is_kind(j, "st")))
            base(wf, w, s, run_, aux)
            aux["queue"] = dict(w.to_be_deleted)

        OPS["delete_detached"] = run
        return OPS

    C09.operations = patched
    try:
        return C09.explore_op(ObResult(), "O07", "delete_detached", tier, delete_post, "does not reach its fixed point or queues the wrong files", judge_src=JUDGE_DELETE, key="O7.1:delete_detached")
    finally:
        C09.operations = ops


OBLIGATIONS = [
    Ob("O7.1", o7_1, "delete_detached reaches its fixed point and queues exactly the deleted outputs", weight=5, timeout={"quick": 2400, "thorough": 7200}),
    Ob("O7.2", C11.o11_4, "revert_optional_steps reverts exactly the executed optional steps and queues their outputs (= C11/O11.4)", weight=4, timeout={"quick": 2400, "thorough": 7200}),
]
