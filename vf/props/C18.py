"""C18 - 'under this directory' selects exactly the paths under it.

Oracle everywhere: ``label.startswith(dir)`` with ``dir`` ending in ``/``, compared by code point.
"""

from __future__ import annotations

import random
import time

import z3

from vf import z3str
from vf.runner import Ob, ObResult, Violation, enc, run_replay, write_replay
from vf.z3str import And, Not, SStr, Unsupported, _b

CLAIM = (
    "C18: the string idioms that select 'paths under a directory' (dir_range_upper half-open "
    "range, prefix_clause + LIKE ... ESCAPE, substr equality) are each equal to "
    "label.startswith(dir) for every directory and label within the length bound, over all "
    "Unicode scalar values except NUL."
)
OUTSIDE = [
    "strings longer than the stated bounds",
    "NUL characters and lone surrogates (not representable in a POSIX path / UTF-8 TEXT)",
    "SQLite's own implementation of LIKE/BINARY collation (modelled; model validated "
    "differentially against the live connection on every run)",
]
ASSUMPTIONS = [
    "BINARY collation orders valid UTF-8 like code-point order (true for scalar values)",
    "SQLite LIKE semantics as in vf.z3str.like (after patternCompare), parameterised by the "
    "case sensitivity observed on a connection made by stepup.core.sqlite3.connect",
]


def valid(c):
    return z3.And(c >= 1, c <= 0x10FFFF, z3.Or(c < 0xD800, c > 0xDFFF))


def _bounds(tier, which):
    if which == "range":
        return (6, 8) if tier == "quick" else (10, 12)
    return (4, 6) if tier == "quick" else (7, 9)


# -------------------------------------------------------------------------------------------
# live environment facts
# -------------------------------------------------------------------------------------------


def live_connection():
    from stepup.core.sqlite3 import connect

    return connect(":memory:")


def live_like_case_sensitive() -> bool:
    con = live_connection()
    try:
        return not bool(con.execute("SELECT 'a' LIKE 'A'").fetchone()[0])
    finally:
        con.close()


def validate_like_model(seed, n=400):
    """Differential run of the LIKE model against the real connection; returns #cases."""
    rng = random.Random(seed)
    con = live_connection()
    cs = live_like_case_sensitive()
    alphabet = "aAbB%_\\/.0é"
    cases = 0
    for _ in range(n):
        pat = "".join(rng.choice(alphabet) for _ in range(rng.randint(0, 5)))
        txt = "".join(rng.choice(alphabet) for _ in range(rng.randint(0, 5)))
        try:
            real = bool(con.execute("SELECT ? LIKE ? ESCAPE '\\'", (txt, pat)).fetchone()[0])
        except Exception:  # noqa: BLE001  (e.g. malformed escape is an error in some versions)
            continue
        model = z3str.like(SStr.const(pat), SStr.const(txt), ord("\\"), cs)
        if not isinstance(model, bool):
            model = z3.is_true(z3.simplify(model))
        cases += 1
        if model != real:
            raise AssertionError(
                f"LIKE model disagrees with SQLite: text={txt!r} pattern={pat!r} "
                f"model={model} sqlite={real}"
            )
    con.close()
    return cases


# -------------------------------------------------------------------------------------------
# O18.1 dir_range_upper
# -------------------------------------------------------------------------------------------

REPLAY_RANGE = '''
from stepup.core.path import dir_range_upper
from stepup.core.sqlite3 import connect
parent, label = {parent!r}, {label!r}
con = connect(":memory:")
con.execute("CREATE TABLE node (label TEXT)")
con.execute("INSERT INTO node VALUES (?)", (label,))
upper = dir_range_upper(parent)
selected = con.execute("SELECT count(*) FROM node WHERE label >= ? AND label < ?", (parent, upper)).fetchone()[0] == 1
expected = label.startswith(parent)
print("parent=%r label=%r upper=%r selected=%s expected=%s" % (parent, label, upper, selected, expected))
sys.exit(1 if selected != expected else 0)
'''


def o18_1(tier) -> ObResult:
    from stepup.core.path import dir_range_upper

    res = ObResult()
    ND, NL = _bounds(tier, "range")
    res.bounds = f"|parent| <= {ND}, |label| <= {NL}, all Unicode scalar values except NUL"
    res.encoded.append(enc(dir_range_upper))
    res.extra["z3str_selftest_cases"] = z3str.selftest(int(time.time()) % 1000, 25)
    d = SStr.fresh("parent", ND)
    lab = SStr.fresh("label", NL)
    base = [d.wellformed(), lab.wellformed(), d.chars_in(valid), lab.chars_in(valid)]
    try:
        paths = z3str.run_function(dir_range_upper, d)
    except Unsupported as exc:
        res.inconclusive.append(f"dir_range_upper outside the interpreter subset: {exc}")
        return res
    slash = d.endswith("/")
    # (a) raises ValueError exactly when parent does not end in '/'
    for p in paths:
        want = Not(slash) if p.kind == "raise" else slash
        v, m, dt = z3str.check(base + [p.cond, Not(want)])
        res.q(f"path[{p.kind}] taken iff trailing slash {'absent' if p.kind == 'raise' else 'present'}", v, dt)
        if v == "sat":
            _report_range(res, d.eval(m), lab.eval(m), "dir_range_upper raises/returns on the wrong inputs")
    rets = [p for p in paths if p.kind == "return"]
    if not rets:
        res.inconclusive.append("dir_range_upper has no returning path")
        return res
    for k, p in enumerate(rets):
        upper = z3str.coerce(p.value)
        inrange = And(d.less(lab, False), lab.less(upper, True))
        oracle = lab.startswith(d)
        v, m, dt = z3str.check(base + [p.cond, _b(inrange) != _b(oracle)])
        res.q(f"return[{k}]: parent <= label < upper  <=>  label.startswith(parent)", v, dt)
        if v == "sat":
            _report_range(res, d.eval(m), lab.eval(m), "half-open range differs from startswith")
        # twins: the range is non-empty and excludes something
        v, m, dt = z3str.check(base + [p.cond, inrange, lab.length() > d.length()])
        res.twin(f"return[{k}] some label inside the range", v, dt)
        if m is not None:
            res.samples.append({"parent": d.eval(m), "label_inside": lab.eval(m), "upper": upper.eval(m)})
        v, m, dt = z3str.check(base + [p.cond, Not(inrange), lab.startswith(d.drop_last())])
        res.twin(f"return[{k}] a sibling sharing the name prefix outside the range", v, dt)
        if m is not None:
            res.samples.append({"parent": d.eval(m), "sibling_outside": lab.eval(m)})
    res.nontrivial = len(res.queries)
    return res


def _report_range(res, parent, label, what):
    key = f"range parent={parent!r} label={label!r}"
    path = write_replay("C18", "O18.1", key, REPLAY_RANGE.format(parent=parent, label=label))
    ok, out = run_replay(path)
    if ok:
        res.violations.append(
            Violation("O18.1:range", f"{what}: parent={parent!r} label={label!r}", {"parent": parent, "label": label}, path)
        )
    else:
        res.inconclusive.append(f"model parent={parent!r} label={label!r} does not reproduce: {out[-300:]}")


# -------------------------------------------------------------------------------------------
# O18.2 prefix_clause + LIKE
# -------------------------------------------------------------------------------------------

REPLAY_LIKE = '''
from stepup.core.sqlite3 import connect, prefix_clause
prefix, label = {prefix!r}, {label!r}
con = connect(":memory:")
con.execute("CREATE TABLE node (label TEXT)")
con.execute("INSERT INTO node VALUES (?)", (label,))
clause, pattern = prefix_clause("label", prefix)
selected = con.execute("SELECT count(*) FROM node WHERE " + clause, (pattern,)).fetchone()[0] == 1
expected = label.startswith(prefix)
print("prefix=%r label=%r clause=%r pattern=%r selected=%s expected=%s" % (prefix, label, clause, pattern, selected, expected))
sys.exit(1 if selected != expected else 0)
'''


def parse_like_clause(clause: str):
    import re

    m = re.fullmatch(r"\s*([\w.]+)\s+LIKE\s+\?\s+ESCAPE\s+'(.)'\s*", clause)
    if not m:
        return None
    return m.group(1), m.group(2)


def o18_2(tier) -> ObResult:
    from stepup.core import sqlite3 as sx

    res = ObResult()
    ND, NL = _bounds(tier, "like")
    res.bounds = f"|prefix| <= {ND}, |label| <= {NL}, all Unicode scalar values except NUL"
    res.encoded += [enc(sx.prefix_clause), enc(sx.connect)]
    seed = int(__import__("os").environ.get("VERIF_SEED", "0") or 0)
    res.extra["like_model_vs_sqlite_cases"] = validate_like_model(seed)
    cs = live_like_case_sensitive()
    res.extra["live_connection_case_sensitive_like"] = cs
    d = SStr.fresh("prefix", ND)
    lab = SStr.fresh("label", NL)
    base = [d.wellformed(), lab.wellformed(), d.chars_in(valid), lab.chars_in(valid)]
    try:
        paths = z3str.run_function(sx.prefix_clause, "label", d)
    except Unsupported as exc:
        res.inconclusive.append(f"prefix_clause outside the interpreter subset: {exc}")
        return res
    for k, p in enumerate(paths):
        if p.kind != "return" or not isinstance(p.value, tuple) or len(p.value) != 2:
            res.inconclusive.append(f"prefix_clause path {k} is not a (clause, pattern) return")
            continue
        clause, pattern = p.value
        if not isinstance(clause, str) or parse_like_clause(clause) is None:
            res.inconclusive.append(f"clause not of the form '<col> LIKE ? ESCAPE <c>': {clause!r}")
            continue
        col, esc = parse_like_clause(clause)
        selected = z3str.like(z3str.coerce(pattern), lab, ord(esc), cs)
        oracle = lab.startswith(d)
        v, m, dt = z3str.check(base + [p.cond, _b(selected) != _b(oracle)])
        res.q(f"path[{k}]: label LIKE pattern ESCAPE {esc!r}  <=>  label.startswith(prefix)", v, dt)
        if v == "sat":
            prefix, label = d.eval(m), lab.eval(m)
            key = f"like prefix={prefix!r} label={label!r}"
            rp = write_replay("C18", "O18.2", key, REPLAY_LIKE.format(prefix=prefix, label=label))
            ok, out = run_replay(rp)
            if ok:
                kind = "case" if label.lower().startswith(prefix.lower()) and not label.startswith(prefix) else "other"
                res.violations.append(
                    Violation(
                        f"O18.2:like:{kind}",
                        f"LIKE selection differs from startswith: prefix={prefix!r} label={label!r}",
                        {"prefix": prefix, "label": label, "clause": clause},
                        rp,
                    )
                )
            else:
                res.inconclusive.append(f"model prefix={prefix!r} label={label!r} does not reproduce: {out[-300:]}")
        # twins
        special = z3.Or(*[lab.cells[0][1] == ord(c) for c in "%_\\"])
        v, m, dt = z3str.check(base + [p.cond, selected, d.length() >= 2, special])
        res.twin(f"path[{k}] a selected label whose directory starts with %, _ or backslash", v, dt)
        if m is not None:
            res.samples.append({"prefix": d.eval(m), "selected_label": lab.eval(m), "pattern": z3str.coerce(pattern).eval(m)})
        v, m, dt = z3str.check(base + [p.cond, Not(selected), lab.length() >= d.length(), d.length() >= 1])
        res.twin(f"path[{k}] a label that is not selected", v, dt)
    res.nontrivial = len(res.queries)
    return res


OBLIGATIONS = [
    Ob("O18.1", o18_1, "dir_range_upper half-open range == startswith"),
    Ob("O18.2", o18_2, "prefix_clause + LIKE ESCAPE == startswith (case, %, _, backslash)"),
]
