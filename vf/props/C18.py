"""C18 - 'under this directory' selects exactly the paths under it.

Oracle everywhere: ``label.startswith(dir)`` with ``dir`` ending in ``/``, compared by code point.
"""

from __future__ import annotations

import random
import time

import z3

from vf import z3str
from vf.runner import Ob, ObResult, Violation, enc, run_replay, write_replay
from vf.z3str import And, Not, SStr, Unsupported, _b

CLAIM = (
    "C18: the string idioms that select 'paths under a directory' (dir_range_upper half-open "
    "range, prefix_clause + LIKE ... ESCAPE, substr equality) are each equal to "
    "label.startswith(dir) for every directory and label within the length bound, over all "
    "Unicode scalar values except NUL."
)
OUTSIDE = [
    "strings longer than the stated bounds",
    "NUL characters and lone surrogates (not representable in a POSIX path / UTF-8 TEXT)",
    "SQLite's own implementation of LIKE/BINARY collation (modelled; model validated "
    "differentially against the live connection on every run)",
]
ASSUMPTIONS = [
    "BINARY collation orders valid UTF-8 like code-point order (true for scalar values)",
    "SQLite LIKE semantics as in vf.z3str.like (after patternCompare), parameterised by the "
    "case sensitivity observed on a connection made by stepup.core.sqlite3.connect",
]


def valid(c):
    return z3.And(c >= 1, c <= 0x10FFFF, z3.Or(c < 0xD800, c > 0xDFFF))


def _bounds(tier, which):
    if which == "range":
        return (6, 8) if tier == "quick" else (10, 12)
    return (4, 6) if tier == "quick" else (7, 9)


# -------------------------------------------------------------------------------------------
# live environment facts
# -------------------------------------------------------------------------------------------


def live_connection():
    from stepup.core.sqlite3 import connect

    return connect(":memory:")


def live_like_case_sensitive() -> bool:
    con = live_connection()
    try:
        return not bool(con.execute("SELECT 'a' LIKE 'A'").fetchone()[0])
    finally:
        con.close()


def validate_like_model(seed, n=400):
    """Differential run of the LIKE model against the real connection; returns #cases."""
    rng = random.Random(seed)
    con = live_connection()
    cs = live_like_case_sensitive()
    alphabet = "aAbB%_\\/.0é"
    cases = 0
    for _ in range(n):
        pat = "".join(rng.choice(alphabet) for _ in range(rng.randint(0, 5)))
        txt = "".join(rng.choice(alphabet) for _ in range(rng.randint(0, 5)))
        try:
            real = bool(con.execute("SELECT ? LIKE ? ESCAPE '\\'", (txt, pat)).fetchone()[0])
        except Exception:  # noqa: BLE001  (e.g. malformed escape is an error in some versions)
            continue
        model = z3str.like(SStr.const(pat), SStr.const(txt), ord("\\"), cs)
        if not isinstance(model, bool):
            model = z3.is_true(z3.simplify(model))
        cases += 1
        if model != real:
            raise AssertionError(
                f"LIKE model disagrees with SQLite: text={txt!r} pattern={pat!r} "
                f"model={model} sqlite={real}"
            )
    con.close()
    return cases


# -------------------------------------------------------------------------------------------
# O18.1 dir_range_upper
# -------------------------------------------------------------------------------------------

REPLAY_RANGE = '''
from stepup.core.path import dir_range_upper
from stepup.core.sqlite3 import connect
parent, label = {parent!r}, {label!r}
con = connect(":memory:")
con.execute("CREATE TABLE node (label TEXT)")
con.execute("INSERT INTO node VALUES (?)", (label,))
upper = dir_range_upper(parent)
selected = con.execute("SELECT count(*) FROM node WHERE label >= ? AND label < ?", (parent, upper)).fetchone()[0] == 1
expected = label.startswith(parent)
print("parent=%r label=%r upper=%r selected=%s expected=%s" % (parent, label, upper, selected, expected))
sys.exit(1 if selected != expected else 0)
'''


def o18_1(tier) -> ObResult:
    from stepup.core.path import dir_range_upper

    res = ObResult()
    ND, NL = _bounds(tier, "range")
    res.bounds = f"|parent| <= {ND}, |label| <= {NL}, all Unicode scalar values except NUL"
    res.encoded.append(enc(dir_range_upper))
    res.extra["z3str_selftest_cases"] = z3str.selftest(int(time.time()) % 1000, 25)
    d = SStr.fresh("parent", ND)
    lab = SStr.fresh("label", NL)
    base = [d.wellformed(), lab.wellformed(), d.chars_in(valid), lab.chars_in(valid)]
    try:
        paths = z3str.run_function(dir_range_upper, d)
    except Unsupported as exc:
        res.inconclusive.append(f"dir_range_upper outside the interpreter subset: {exc}")
        return res
    slash = d.endswith("/")
    # (a) raises ValueError exactly when parent does not end in '/'
    for p in paths:
        want = Not(slash) if p.kind == "raise" else slash
        v, m, dt = z3str.check(base + [p.cond, Not(want)])
        res.q(f"path[{p.kind}] taken iff trailing slash {'absent' if p.kind == 'raise' else 'present'}", v, dt)
        if v == "sat":
            _report_range(res, d.eval(m), lab.eval(m), "dir_range_upper raises/returns on the wrong inputs")
    rets = [p for p in paths if p.kind == "return"]
    if not rets:
        res.inconclusive.append("dir_range_upper has no returning path")
        return res
    for k, p in enumerate(rets):
        upper = z3str.coerce(p.value)
        inrange = And(d.less(lab, False), lab.less(upper, True))
        oracle = lab.startswith(d)
        v, m, dt = z3str.check(base + [p.cond, _b(inrange) != _b(oracle)])
        res.q(f"return[{k}]: parent <= label < upper  <=>  label.startswith(parent)", v, dt)
        if v == "sat":
            _report_range(res, d.eval(m), lab.eval(m), "half-open range differs from startswith")
        # twins: the range is non-empty and excludes something
        v, m, dt = z3str.check(base + [p.cond, inrange, lab.length() > d.length()])
        res.twin(f"return[{k}] some label inside the range", v, dt)
        if m is not None:
            res.samples.append({"parent": d.eval(m), "label_inside": lab.eval(m), "upper": upper.eval(m)})
        v, m, dt = z3str.check(base + [p.cond, Not(inrange), lab.startswith(d.drop_last())])
        res.twin(f"return[{k}] a sibling sharing the name prefix outside the range", v, dt)
        if m is not None:
            res.samples.append({"parent": d.eval(m), "sibling_outside": lab.eval(m)})
    res.nontrivial = len(res.queries)
    return res


def _report_range(res, parent, label, what):
    key = f"range parent={parent!r} label={label!r}"
    path = write_replay("C18", "O18.1", key, REPLAY_RANGE.format(parent=parent, label=label))
    ok, out = run_replay(path)
    if ok:
        res.violations.append(
            Violation("O18.1:range", f"{what}: parent={parent!r} label={label!r}", {"parent": parent, "label": label}, path)
        )
    else:
        res.inconclusive.append(f"model parent={parent!r} label={label!r} does not reproduce: {out[-300:]}")


# -------------------------------------------------------------------------------------------
# O18.2 prefix_clause + LIKE
# -------------------------------------------------------------------------------------------

REPLAY_LIKE = '''
from stepup.core.sqlite3 import connect, prefix_clause
prefix, label = {prefix!r}, {label!r}
con = connect(":memory:")
con.execute("CREATE TABLE node (label TEXT)")
con.execute("INSERT INTO node VALUES (?)", (label,))
clause, pattern = prefix_clause("label", prefix)
selected = con.execute("SELECT count(*) FROM node WHERE " + clause, (pattern,)).fetchone()[0] == 1
expected = label.startswith(prefix)
print("prefix=%r label=%r clause=%r pattern=%r selected=%s expected=%s" % (prefix, label, clause, pattern, selected, expected))
sys.exit(1 if selected != expected else 0)
'''


def parse_like_clause(clause: str):
    import re

    m = re.fullmatch(r"\s*([\w.]+)\s+LIKE\s+\?\s+ESCAPE\s+'(.)'\s*", clause)
    if not m:
        return None
    return m.group(1), m.group(2)


def o18_2(tier) -> ObResult:
    from stepup.core import sqlite3 as sx

    res = ObResult()
    ND, NL = _bounds(tier, "like")
    res.bounds = f"|prefix| <= {ND}, |label| <= {NL}, all Unicode scalar values except NUL"
    res.encoded += [enc(sx.prefix_clause), enc(sx.connect)]
    seed = int(__import__("os").environ.get("VERIF_SEED", "0") or 0)
    res.extra["like_model_vs_sqlite_cases"] = validate_like_model(seed)
    cs = live_like_case_sensitive()
    res.extra["live_connection_case_sensitive_like"] = cs
    d = SStr.fresh("prefix", ND)
    lab = SStr.fresh("label", NL)
    base = [d.wellformed(), lab.wellformed(), d.chars_in(valid), lab.chars_in(valid)]
    try:
        paths = z3str.run_function(sx.prefix_clause, "label", d)
    except Unsupported as exc:
        res.inconclusive.append(f"prefix_clause outside the interpreter subset: {exc}")
        return res
    for k, p in enumerate(paths):
        if p.kind != "return" or not isinstance(p.value, tuple) or len(p.value) != 2:
            res.inconclusive.append(f"prefix_clause path {k} is not a (clause, pattern) return")
            continue
        clause, pattern = p.value
        if not isinstance(clause, str) or parse_like_clause(clause) is None:
            res.inconclusive.append(f"clause not of the form '<col> LIKE ? ESCAPE <c>': {clause!r}")
            continue
        col, esc = parse_like_clause(clause)
        selected = z3str.like(z3str.coerce(pattern), lab, ord(esc), cs)
        oracle = lab.startswith(d)
        v, m, dt = z3str.check(base + [p.cond, _b(selected) != _b(oracle)])
        res.q(f"path[{k}]: label LIKE pattern ESCAPE {esc!r}  <=>  label.startswith(prefix)", v, dt)
        if v == "sat":
            prefix, label = d.eval(m), lab.eval(m)
            key = f"like prefix={prefix!r} label={label!r}"
            rp = write_replay("C18", "O18.2", key, REPLAY_LIKE.format(prefix=prefix, label=label))
            ok, out = run_replay(rp)
            if ok:
                kind = "case" if label.lower().startswith(prefix.lower()) and not label.startswith(prefix) else "other"
                res.violations.append(
                    Violation(
                        f"O18.2:like:{kind}",
                        f"LIKE selection differs from startswith: prefix={prefix!r} label={label!r}",
                        {"prefix": prefix, "label": label, "clause": clause},
                        rp,
                    )
                )
            else:
                res.inconclusive.append(f"model prefix={prefix!r} label={label!r} does not reproduce: {out[-300:]}")
        # twins
        special = z3.Or(*[lab.cells[0][1] == ord(c) for c in "%_\\"])
        v, m, dt = z3str.check(base + [p.cond, selected, d.length() >= 2, special])
        res.twin(f"path[{k}] a selected label whose directory starts with %, _ or backslash", v, dt)
        if m is not None:
            res.samples.append({"prefix": d.eval(m), "selected_label": lab.eval(m), "pattern": z3str.coerce(pattern).eval(m)})
        v, m, dt = z3str.check(base + [p.cond, Not(selected), lab.length() >= d.length(), d.length() >= 1])
        res.twin(f"path[{k}] a label that is not selected", v, dt)
    res.nontrivial = len(res.queries)
    return res


OBLIGATIONS = [
    Ob("O18.1", o18_1, "dir_range_upper half-open range == startswith"),
    Ob("O18.2", o18_2, "prefix_clause + LIKE ESCAPE == startswith (case, %, _, backslash)"),
]


# -------------------------------------------------------------------------------------------
# Site obligations: the real glue code runs natively on a symbolic directory (PStr) under the fork
# executor; the SQL text and arguments it produces are recorded and the label predicate of the
# live statement is evaluated on a symbolic label in the string domain.
# -------------------------------------------------------------------------------------------


class _Cursor:
    def __init__(self, rows=()):
        self.rows = list(rows)

    def fetchone(self):
        return self.rows[0] if self.rows else None

    def fetchall(self):
        return self.rows

    def __iter__(self):
        return iter(self.rows)


class _RecDB:
    def __init__(self, first_row=None):
        self.calls = []
        self.first_row = first_row

    def execute(self, sql, args=()):
        self.calls.append((sql, tuple(args) if not isinstance(args, dict) else args))
        return _Cursor([self.first_row] if self.first_row is not None else [])

    def executemany(self, sql, seq):
        for a in seq:
            self.calls.append((sql, tuple(a)))
        return _Cursor()

    async def __aenter__(self):
        return None

    async def __aexit__(self, *a):
        return False


def _site(res, oid, name, run_site, oracle, dmax, lmax, dir_pre, row_cols):
    """Explore the site; for each path evaluate the recorded predicate against the oracle."""
    from vf import strsql
    from vf.pstr import PStr
    from vf.symsql.executor import Explorer
    from vf.symsql.parse import parse

    cs = live_like_case_sensitive()
    counts = {"paths": 0, "statements": 0}

    def body(run):
        PStr.run = run
        d = SStr.fresh("dir", dmax)
        lab = SStr.fresh("label", lmax)
        for c in (d.wellformed(), lab.wellformed(), d.chars_in(valid), lab.chars_in(valid), dir_pre(d)):
            run.assume(_b(c))

        def thunk():
            return d, lab, run_site(PStr(d))

        return None, thunk

    def on_path(pr):
        run = pr.run
        counts["paths"] += 1
        if pr.outcome == "raise":
            if isinstance(pr.value, Unsupported):
                res.inconclusive.append(f"{name}: {pr.value}")
                return
            v, m, dt = run.query()
            res.q(f"{name}: no exception on a valid directory ({type(pr.value).__name__}: {pr.value})", "sat" if v == "sat" else v, dt)
            if v == "sat":
                res.inconclusive.append(f"{name} raised {pr.value!r} for a feasible directory")
            return
        d, lab, calls = pr.value
        for sql, args, must in calls:
            counts["statements"] += 1
            tree = parse(sql)
            where = strsql.find_where(tree, must)
            if where is None:
                res.inconclusive.append(f"{name}: cannot locate the label predicate in {' '.join(sql.split())[:100]}")
                continue
            cols = dict(row_cols)
            for k in list(cols):
                if cols[k] == "@label":
                    cols[k] = lab
            try:
                env = strsql.Env(cols, _params_for(tree, where, args), cs)
                sel = strsql.truth(strsql.ev(where, env))
            except Unsupported as exc:
                res.inconclusive.append(f"{name}: predicate outside the subset: {exc}")
                continue
            want = oracle(d, lab)
            v, m, dt = run.query(_b(sel) != _b(want))
            res.q(f"{name}: live predicate [{' '.join(strsql_text(where).split())[:70]}] selects exactly the labels under the directory", v, dt)
            if v == "sat":
                _site_violation(res, oid, name, d.eval(m), lab.eval(m))
            elif v == "unsat" and counts["statements"] <= 2:
                v2, m2, dt2 = run.query(_b(sel), lab.length() > d.length())
                res.twin(f"{name}: some label is selected", v2, dt2)
                if m2 is not None:
                    res.samples.append({"site": name, "directory": d.eval(m2), "selected_label": lab.eval(m2), "sql": " ".join(sql.split())[:160]})

    Explorer(max_paths=200).explore(body, on_path)
    if counts["statements"] == 0:
        res.inconclusive.append(f"{name}: the site issued no statement")


def strsql_text(tree):
    import lark

    out = []

    def rec(t):
        if isinstance(t, lark.Token):
            out.append(str(t))
        else:
            for k in t.children:
                rec(k)

    rec(tree)
    return " ".join(out)


def _params_for(stmt_tree, where_tree, args):
    """The positional arguments that belong to `where_tree` (SQLite numbers '?' textually)."""
    import lark

    order = []

    def rec(t, inside):
        if isinstance(t, lark.Tree):
            if t is where_tree:
                inside = True
            if t.data == "p_pos":
                order.append(inside)
            for k in t.children:
                rec(k, inside)

    rec(stmt_tree, False)
    if isinstance(args, dict):
        return []
    if len(order) != len(args):
        raise Unsupported(f"{len(args)} arguments for {len(order)} placeholders")
    return [a for a, inside in zip(args, order) if inside]


REPLAY_SITE = {}


def _site_violation(res, oid, name, directory, label):
    body = REPLAY_SITE[name].format(directory=directory, label=label)
    key = f"{name} dir={directory!r} label={label!r}"
    rp = write_replay("C18", oid, key, body)
    ok, out = run_replay(rp)
    if ok:
        res.violations.append(Violation(f"{oid}:{name}", f"{name} selects a wrong set: directory {directory!r}, label {label!r}", {"directory": directory, "label": label}, rp))
    else:
        res.inconclusive.append(f"{name}: model dir={directory!r} label={label!r} does not reproduce: {out[-300:]}")


_WF_SETUP = '''
import asyncio
from stepup.core.sqlite3 import DBSession
from stepup.core.workflow import Workflow
from stepup.core.file import File
from stepup.core.enums import FileState, HashUpdateCause
from stepup.core.hash import FileHash
directory, label = {directory!r}, {label!r}
async def main():
    with DBSession.open(":memory:") as db:
        wf = Workflow(db, dir_queue=None{wf_args})
        await wf.initialize()
        async with db:
{body}
sys.exit(asyncio.run(main()))
'''

REPLAY_SITE["has_regular_output_under"] = _WF_SETUP.replace("{wf_args}", "").replace("{body}", '''            wf.define_step(wf.root, "make", out_paths=[label])
            got = wf.has_regular_output_under(directory)
            want = label.startswith(directory)
            print("has_regular_output_under", repr(directory), "with output", repr(label), "->", got, "expected", want)
            return 1 if got != want else 0''')
REPLAY_SITE["relevant_paths_under"] = _WF_SETUP.replace("{wf_args}", "").replace("{body}", '''            wf.declare_static_files(wf.root, [label])
            wf.update_file_hashes({{label: FileHash(b"d" * 32, 0o100644, 1.0, 1, 1)}}, cause=HashUpdateCause.CONFIRMED)
            got = label in set(wf.relevant_paths_under(directory))
            d = directory if directory.endswith("/") else directory + "/"
            want = label.startswith(d)
            print("relevant_paths_under", repr(directory), "static file", repr(label), "->", got, "expected", want)
            return 1 if got != want else 0''')
REPLAY_SITE["is_justified_without_node"] = _WF_SETUP.replace("{wf_args}", "").replace("{body}", '''            wf.declare_static_files(wf.root, [label])
            wf.update_file_hashes({{label: FileHash(b"d" * 32, 0o100644, 1.0, 1, 1)}}, cause=HashUpdateCause.CONFIRMED)
            got = wf._is_justified_without_node(directory, [])
            want = label.startswith(directory)
            print("_is_justified_without_node", repr(directory), "static file", repr(label), "->", got, "expected", want)
            return 1 if got != want else 0''')
REPLAY_SITE["clean.search_matching_paths"] = '''
from stepup.core.sqlite3 import connect
from stepup.core.clean import search_matching_paths
from path import Path
directory, label = {directory!r}, {label!r}
con = connect(":memory:")
con.execute("CREATE TABLE node (i INTEGER PRIMARY KEY, label TEXT)")
con.execute("CREATE TABLE file (node INTEGER PRIMARY KEY)")
con.execute("INSERT INTO node VALUES (1, ?)", (label,)); con.execute("INSERT INTO file VALUES (1)")
got = label in search_matching_paths(con, {{Path(directory)}})
want = label == directory or label.startswith(directory + "/")
print("stepup clean", repr(directory), "stored path", repr(label), "->", got, "expected", want)
sys.exit(1 if got != want else 0)
'''
REPLAY_SITE["target_dir elevation"] = '''
import asyncio
from stepup.core.sqlite3 import DBSession
from stepup.core.workflow import Workflow
from stepup.core.scheduler import Scheduler
from stepup.core.enums import Need
directory, label = {directory!r}, {label!r}
async def main():
    with DBSession.open(":memory:") as db:
        wf = Workflow(db, dir_queue=None, target_dirs=[directory])
        await wf.initialize()
        sched = Scheduler(wf, db=db)
        await sched.initialize(None)
        async with db:
            wf.define_step(wf.root, "make", out_paths=[label])
            wf.reconcile_targets()
            sched._update_meta_after()
            need = db.execute("SELECT _implied_need FROM step").fetchone()[0]
        got = need == Need.TARGET.value
        want = label.startswith(directory)
        print("directory target", repr(directory), "output", repr(label), "-> elevated", got, "expected", want)
        return 1 if got != want else 0
sys.exit(asyncio.run(main()))
'''


def _interp_prefix_clause():
    """prefix_clause builds its pattern with an f-string, which Python cannot run on a proxy: the
    sites get the interpreted version of the LIVE function instead (same AST as O18.2)."""
    from stepup.core import sqlite3 as sx
    from vf.pstr import PStr

    def prefix_clause(column, prefix):
        paths = z3str.run_function(sx.prefix_clause, column, prefix.sym if isinstance(prefix, PStr) else prefix)
        rets = [p for p in paths if p.kind == "return"]
        if len(rets) != 1 or rets[0].cond is not True:
            raise Unsupported("prefix_clause has more than one path")
        clause, pattern = rets[0].value
        return clause, (PStr(z3str.coerce(pattern)) if not isinstance(pattern, str) else pattern)

    return prefix_clause


def _endslash(d):
    return d.endswith("/")


def _noslash_nonempty(d):
    return And(Not(d.endswith("/")), d.length() >= 1, Not(d.equals(SStr.const("."))))


def o18_sites_range(tier) -> ObResult:
    import stepup.core.scheduler as sch
    import stepup.core.workflow as wfm
    from stepup.core.enums import FileState
    from vf.symsql.executor import drive

    res = ObResult()
    dmax, lmax = (5, 7) if tier == "quick" else (8, 10)
    res.bounds = f"|dir| <= {dmax}, |label| <= {lmax}, all Unicode scalar values except NUL; sites: has_regular_output_under, _is_justified_without_node, Scheduler.initialize + UPDATE_CHECK_AFTER + RECONCILE_TARGET_DIRS"
    res.encoded += [enc(wfm.Workflow.has_regular_output_under), enc(wfm.Workflow._is_justified_without_node), enc(sch.Scheduler.initialize), enc(sch.UPDATE_CHECK_AFTER, "scheduler.UPDATE_CHECK_AFTER"), enc(wfm.RECONCILE_TARGET_DIRS, "workflow.RECONCILE_TARGET_DIRS")]

    def run_hro(d):
        fake = type("W", (), {})()
        fake.db = _RecDB((0,))
        wfm.Workflow.has_regular_output_under(fake, d)
        return [(sql, args, ["label"]) for sql, args in fake.db.calls]

    row = {"onode.kind": "file", "onode.label": "@label", "onode.detached": 0, "ofile.state": FileState.BUILT.value}
    _site(res, "O18.5", "has_regular_output_under", run_hro, lambda d, lab: lab.startswith(d), dmax, lmax, _endslash, row)

    def run_just(d):
        fake = type("W", (), {})()
        fake.db = _RecDB(None)
        wfm.Workflow._is_justified_without_node(fake, d, [])
        return [(sql, args, ["label"]) for sql, args in fake.db.calls]

    row2 = {"node.kind": "file", "node.label": "@label", "node.detached": 0, "file.state": FileState.CONFIRMED.value}
    _site(res, "O18.5", "is_justified_without_node", run_just, lambda d, lab: lab.startswith(d), dmax, lmax, lambda d: And(_endslash(d), Not(d.equals(SStr.const("./"))), Not(d.equals(SStr.const("/")))), row2)

    def run_targets(d):
        fake_wf = type("W", (), {})()
        fake_wf.targets = frozenset()
        fake_wf.target_dirs = [d]
        s = object.__new__(sch.Scheduler)
        db = _RecDB()
        object.__setattr__(s, "db", db)
        object.__setattr__(s, "workflow", fake_wf)
        drive(s.initialize(None))
        ins = [(sql, args) for sql, args in db.calls if " ".join(sql.split()) == " ".join(sch.INSERT_TARGET_DIR.split())]
        if len(ins) != 1 or len(ins[0][1]) != 2:
            raise Unsupported("Scheduler.initialize did not insert exactly one (path, upper) row")
        path, upper = ins[0][1]
        out = []
        for sql in (sch.UPDATE_CHECK_AFTER, wfm.RECONCILE_TARGET_DIRS):
            out.append((sql, {"__row__": (path, upper)}, ["target_dir.path", "target_dir.upper"]))
        return out

    # target_dir rows come from the recorded INSERT; bind them as columns
    def _site_targets():
        from vf import strsql
        from vf.pstr import PStr
        from vf.symsql.executor import Explorer
        from vf.symsql.parse import parse

        def body(run):
            PStr.run = run
            d = SStr.fresh("dir", dmax)
            lab = SStr.fresh("label", lmax)
            for c in (d.wellformed(), lab.wellformed(), d.chars_in(valid), lab.chars_in(valid), _endslash(d)):
                run.assume(_b(c))
            return None, lambda: (d, lab, run_targets(PStr(d)))

        def on_path(pr):
            if pr.outcome == "raise":
                res.inconclusive.append(f"target_dir: {type(pr.value).__name__}: {pr.value}")
                return
            d, lab, calls = pr.value
            for sql, extra, must in calls:
                path, upper = extra["__row__"]
                tree = parse(sql)
                where = strsql.find_where(tree, must)
                if where is None:
                    res.inconclusive.append("target_dir: cannot locate the range predicate")
                    continue
                cols = {"target_dir.path": path, "target_dir.upper": upper, "onode.label": lab, "onode.kind": "file"}
                try:
                    sel = strsql.truth(strsql.ev(where, strsql.Env(cols, [], True)))
                except Unsupported as exc:
                    res.inconclusive.append(f"target_dir: predicate outside the subset: {exc}")
                    continue
                v, m, dt = pr.run.query(_b(sel) != _b(lab.startswith(d)))
                res.q(f"target_dir elevation: [{' '.join(strsql_text(where).split())[:80]}] with the (path, upper) row written by Scheduler.initialize selects exactly the labels under the directory", v, dt)
                if v == "sat":
                    _site_violation(res, "O18.5", "target_dir elevation", d.eval(m), lab.eval(m))
                else:
                    v2, m2, dt2 = pr.run.query(_b(sel), lab.length() > d.length())
                    res.twin("target_dir elevation: some label is selected", v2, dt2)

        Explorer(max_paths=50).explore(body, on_path)

    _site_targets()
    res.nontrivial = len(res.queries)
    return res


def o18_sites_like(tier) -> ObResult:
    import stepup.core.clean as cl
    import stepup.core.workflow as wfm
    from stepup.core.enums import FileState

    res = ObResult()
    dmax, lmax = (3, 5) if tier == "quick" else (5, 7)
    res.bounds = f"|dir| <= {dmax}, |label| <= {lmax}, all Unicode scalar values except NUL; sites: Workflow.relevant_paths_under, clean.search_matching_paths"
    res.encoded += [enc(wfm.Workflow.relevant_paths_under), enc(cl.search_matching_paths)]

    def run_rpu(d):
        fake = type("W", (), {})()
        fake.db = _RecDB(None)
        fake.nglob_registrations = lambda: []
        saved = wfm.prefix_clause
        wfm.prefix_clause = _interp_prefix_clause()
        try:
            list(wfm.Workflow.relevant_paths_under(fake, d))
        finally:
            wfm.prefix_clause = saved
        return [(sql, args, ["label"]) for sql, args in fake.db.calls]

    def oracle_rpu(d, lab):
        return Or(And(d.endswith("/"), lab.startswith(d)), And(Not(d.endswith("/")), lab.startswith(d + SStr.const("/"))))

    row = {"node.label": "@label", "label": "@label", "state": FileState.CONFIRMED.value, "detached": 0}
    _site(res, "O18.6", "relevant_paths_under", run_rpu, oracle_rpu, dmax, lmax, lambda d: d.length() >= 1, row)

    def run_clean(d):
        con = _RecDB(None)
        saved = cl.__dict__.get("prefix_clause")
        if saved is not None:
            cl.prefix_clause = _interp_prefix_clause()
        try:
            cl.search_matching_paths(con, {d})
        finally:
            if saved is not None:
                cl.prefix_clause = saved
        return [(sql, args, ["label"]) for sql, args in con.calls]

    def oracle_clean(d, lab):
        return Or(lab.equals(d), lab.startswith(d + SStr.const("/")))

    _site(res, "O18.6", "clean.search_matching_paths", run_clean, oracle_clean, dmax, lmax, _noslash_nonempty, {"label": "@label"})
    res.nontrivial = len(res.queries)
    return res


from vf.z3str import Or  # noqa: E402

OBLIGATIONS += [
    Ob("O18.5", o18_sites_range, "range sites: has_regular_output_under, _is_justified_without_node, directory targets", weight=2),
    Ob("O18.6", o18_sites_like, "LIKE sites: relevant_paths_under, stepup clean DIR", weight=3),
]
