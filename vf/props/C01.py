"""C01 - an incremental build is equivalent to a build from scratch (mechanisms, E-SQL).

Decided: the stale-propagation closure.  Whatever an operation changes, it leaves nothing that
depends on the change marked as done:

  R1  a file that becomes available, or changes while available (its state afterwards is BUILT or
      CONFIRMED, and either its state changed or its new hash was just recorded from outside), has no
      consumer (edge file -> step, attached or detached) that is SUCCEEDED, FAILED or deferred
      afterwards;
  R2  a step that left SUCCEEDED has no output (edge step -> file, attached or detached) that is
      still BUILT afterwards.

A file that becomes unavailable (OUTDATED / PLANNED / MISSING) need not wake its consumers at once:
its producer is no longer SUCCEEDED (C09, I4), so the file has to be rebuilt, and R1 applies when it
is.  (A first version of R1 demanded the wake-up at once for every state change; the code is right,
the rule was too strong -- see DESIGN.md section 11.)

R1-R3 are local rules; because they apply to EVERY change the operation makes, they give the
transitive closure: a change cannot stop propagating at any node of the bounded graph.
"""

from __future__ import annotations

import z3

from vf.props import C09, C10
from vf.runner import Ob, ObResult
from vf.symsql.model import enums
from vf.symsql.values import bz

CLAIM = (
    "C01 (mechanisms): from any database state within the bound, an external change of any file "
    "(update_file_hashes, every cause), a completion (mark_completed, success and failure) and "
    "mark_step_pending leave no step SUCCEEDED, FAILED or deferred that consumes a file which became "
    "available or changed while available, and no BUILT output of a step that left SUCCEEDED -- attached or "
    "detached (detached nodes can be recycled with their state); a fully recycled step is never FAILED "
    "(C05/O5.2); skip soundness is C03."
)
OUTSIDE = [
    "the composition over a history of edits and builds; commands, subprocesses, file contents",
    "the file-system scan behind rescan_nglobs (NamedGlob.glob is a stub: an arbitrary function of pattern and substitutions; its language is C17)",
    "reset_for_rerun's interaction with running child steps",
]
ASSUMPTIONS = C10.ASSUMPTIONS

JUDGE_CLOSURE = '''        def JUDGE(S0, S1, margs):
            bad = []
            changed = {f for f, r in S1["file"].items() if f in S0["file"] and S0["file"][f][1] != r[1]}
            if op == "update_file_hashes(EXTERNAL)":
                changed.add(margs["m.file"])
            changed = {f for f in changed if S1["file"][f][1] in (14, 16)}
            for _, a, b, dyn in S1["dep"]:
                if a in changed and b in S1["step"]:
                    if S1["step"][b][1] in (23, 24): bad.append(("R1 consumer of a changed file is still SUCCEEDED/FAILED", a, b))
                    if S1["step"][b][2]: bad.append(("R1 consumer of a changed file is still deferred", a, b))
                if a in S1["step"] and a in S0["step"] and S0["step"][a][1] == 23 and S1["step"][a][1] != 23 and b in S1["file"] and S1["file"][b][1] == 16:
                    bad.append(("R2 output of a step that left SUCCEEDED is still BUILT", a, b))
            return bad
'''


def closure_post(name):
    def post(wf, aux):
        FileState, StepState, Need = enums()
        pre = aux["pre"]
        pf, ps = pre["file"].rows, pre["step"].rows
        bad = []
        K = wf.K
        mf = z3.Int("m.file")
        for f in range(K):
            nf = wf.files[f]
            changed = z3.And(bz(pf[f].present), bz(nf.present), pf[f].vals["state"].v != nf.vals["state"].v)
            if name == "update_file_hashes(EXTERNAL)":
                changed = z3.Or(changed, z3.And(mf == f + 1, bz(nf.present)))
            changed = z3.And(changed, z3.Or(nf.vals["state"].v == FileState.BUILT.value, nf.vals["state"].v == FileState.CONFIRMED.value))
            for s in range(K):
                ns = wf.steps[s]
                edge = z3.And(wf.dep_edge(f, s), bz(ns.present))
                done = z3.Or(ns.vals["state"].v == StepState.SUCCEEDED.value, ns.vals["state"].v == StepState.FAILED.value)
                bad.append(z3.And(changed, edge, done))  # R1
                bad.append(z3.And(changed, edge, ns.vals["deferred"].v != 0))  # R1 (deferred)
        for s in range(K):
            left = z3.And(bz(ps[s].present), bz(wf.steps[s].present), ps[s].vals["state"].v == StepState.SUCCEEDED.value, wf.steps[s].vals["state"].v != StepState.SUCCEEDED.value)
            for f in range(K):
                bad.append(z3.And(left, wf.dep_edge(s, f), bz(wf.files[f].present), wf.files[f].vals["state"].v == FileState.BUILT.value))  # R2
        return bad

    return post


OPS = [
    "update_file_hashes(EXTERNAL)",
    "update_file_hashes(SUCCEEDED)",
    "update_file_hashes(FAILED)",
    "update_file_hashes(CONFIRMED)",
    "mark_completed(success)",
    "mark_completed(failure)",
    "mark_step_pending",
]


def mk(name):
    def fn(tier):
        return C09.explore_op(ObResult(), "O01", name, tier, closure_post(name), "a change stops propagating (stale step or output left behind)", judge_src=JUDGE_CLOSURE, key=f"O1:{name}")

    return fn


def _xh(oid, cond, pre, what, t=600):
    def fn(tier):
        import stepup.core.startup as su

        from vf import xh
        from vf.runner import enc

        res = ObResult()
        res.bounds = pre
        res.encoded += [enc(su.rescan_env_vars), enc(su.rescan_nglobs)]
        xh.run_condition(res, "C01", oid, "harness.c01", cond, pre, t if tier == "quick" else 3 * t, what=what)
        res.nontrivial = 1
        return res

    return fn


XH_OBS = [
    Ob("O1.e", _xh("O1.e", "rescan_env_vars_exact", "0 <= n0 < 2 and 0 <= n1 < 2 and 0 <= o0 < 3 and 0 <= o1 < 3 and 0 <= va < 3 and 0 <= vb < 3 and 0 <= nrows <= 3", "rescan_env_vars marks exactly the steps whose recorded value differs"), "environment rescan at startup marks exactly the affected steps", timeout={"quick": 1200, "thorough": 3000}),
    Ob("O1.g", _xh("O1.g", "rescan_nglobs_stable", "True", "rescan_nglobs rescans with the registered substitutions"), "glob rescan at startup: unchanged matches change nothing, changed matches are persisted"),
]

OBLIGATIONS = XH_OBS + [Ob(f"O1.{k}", mk(n), f"stale-propagation closure of {n}", weight=3, timeout={"quick": 2400, "thorough": 7200}) for k, n in enumerate(OPS)]
