"""C11 - exactly the needed steps are executed (E-SQL + E-XH)."""

from __future__ import annotations

import z3

from vf import xh
from vf.props import C10
from vf.props.C10 import _explore, _replay_generic, after_invariant, consumer_flagged
from vf.runner import Ob, ObResult, enc
from vf.symsql.executor import drive
from vf.symsql.model import Wf, enums
from vf.symsql.values import bz

CLAIM = (
    "C11: the cached need of every active step equals the least fixed point of the need equation "
    "after the scheduler's recomputation (O11.1 = C10/O10.2a); the dispatch threshold follows the "
    "presence of targets; reconcile_targets flags every step whose cached need may be stale after a "
    "change of targets; revert_optional_steps reverts exactly the executed optional steps and queues "
    "their outputs with the right hashes; raw targets are classified by their trailing slash only."
)
OUTSIDE = ["'is built' in the sense of commands executed", "graphs larger than the capacity bound"]
ASSUMPTIONS = C10.ASSUMPTIONS

BODY_RECONCILE = '''        async with db:
            wf.reconcile_targets()
            sched._update_meta_after()
            inc = db.execute("SELECT node, _implied_need FROM step JOIN node ON node.i = step.node WHERE NOT node.detached ORDER BY 1").fetchall()
            db.execute("UPDATE step SET _check_after = 1")
            sched._update_meta_after()
            full = db.execute("SELECT node, _implied_need FROM step JOIN node ON node.i = step.node WHERE NOT node.detached ORDER BY 1").fetchall()
        print("after reconcile_targets + incremental recomputation:", inc, "recomputation from scratch:", full)
        return 1 if inc != full else 0
'''


def o11_3(tier):
    import stepup.core.workflow as wfm

    res = ObResult()
    from stepup.core.enums import TARGET_FORBIDDEN_STATES
    from stepup.core.exceptions import GraphError

    K, D = (4, 2) if tier == "quick" else (4, 3)
    configs = [([], [], K, True), (["a"], [], K, False), (["a"], [], 3, True), ([], ["d/"], K, True), (["d/x"], ["d/"], K, False)]
    res.bounds = (
        f"{K} node slots, {D} dependency edges; new target configurations (targets, directory targets, node slots, "
        f"whether files named by an exact target may be in a state that is forbidden for targets): {configs}; the previous "
        "configuration (which labels were exact targets, whether d/ was a directory target) is symbolic; GraphError "
        "(forbidden target) is an accepted outcome"
    )
    res.encoded += [enc(wfm.Workflow.reconcile_targets), enc(wfm.RECONCILE_TARGET_DIRS, "workflow.RECONCILE_TARGET_DIRS")]
    _, StepState, Need = enums()
    for targets, tdirs, K, forbidden_ok in configs:
        fixed = {"target_path": [{"path": t} for t in targets], "target_dir": [{"path": d, "upper": d[:-1] + "0"} for d in tdirs]}

        def body_pre(wf, targets=targets, forbidden_ok=forbidden_ok):
            pool = wf.ctx.pool
            extra = []
            if not forbidden_ok:
                for f in range(wf.K):
                    named = z3.Or(*[wf.nodes[f].vals["label"].v == pool.atom(t) for t in targets])
                    extra.append(z3.Implies(z3.And(bz(wf.files[f].present), named), z3.And(*[wf.files[f].vals["state"].v != st.value for st in TARGET_FORBIDDEN_STATES])))
            old_t = {lab: z3.Bool(f"old_target[{lab}]") for lab in wf.labels}
            old_d = z3.Bool("old_dir_target")

            def in_old(labterm):
                return z3.Or(*[z3.And(old_t[lab], labterm == pool.atom(lab)) for lab in wf.labels])

            def under_old(labterm):
                return z3.And(old_d, labterm >= pool.atom("d/"), labterm < pool.atom("d0"))

            loc = wf.local_need(in_targets=in_old, under_dir=under_old)
            cons = []
            for j in range(wf.K):
                s = wf.steps[j]
                quiet = z3.And(bz(s.present), wf.attached(j), s.vals["_check_after"].v == 0, z3.Not(consumer_flagged(wf, j)))
                cons.append(z3.Implies(quiet, s.vals["_implied_need"].v == loc[j]))
            return cons + extra

        def action(wf, w, s, aux, targets=targets, tdirs=tdirs):
            object.__setattr__(w, "targets", frozenset(targets))
            object.__setattr__(w, "target_dirs", frozenset(tdirs))
            w.reconcile_targets()

        def post(wf, aux):
            return [z3.Not(c) for c in after_invariant(wf)]

        def viol(res, wf0, m, content, which, aux, targets=targets, tdirs=tdirs):
            _replay_generic(res, "O11.3", f"O11.3:reconcile:{targets}:{tdirs}", content, BODY_RECONCILE, "after reconcile_targets a step keeps a stale need without being flagged", targets={"targets": targets, "target_dirs": tdirs})

        c = _explore(res, f"reconcile_targets {targets} {tdirs} K={K}", K, D, body_pre, action, post, on_violation=viol, max_paths=1500, extra_caps=None, labels=["a", "b", "d/x"], fixed=fixed, allow_exc=(GraphError,))
    res.twin("paths explored", "sat" if res.queries else "unsat", 0.0)
    res.nontrivial = len(res.queries)
    return res


BODY_REVERT = '''        from stepup.core.finalize import revert_optional_steps
        async def rep(*a, **k):
            return None
        async with db:
            before_steps = db.execute("SELECT step.node, state, _implied_need, node.detached FROM step JOIN node ON node.i = step.node").fetchall()
            before_files = {r[0]: r for r in db.execute("SELECT node, state, hash FROM file").fetchall()}
            outs = db.execute("SELECT d.source, d.sink FROM dependency d JOIN step ON step.node = d.source JOIN file ON file.node = d.sink").fetchall()
            labels = dict(db.execute("SELECT i, label FROM node").fetchall())
        await revert_optional_steps(wf, rep)
        async with db:
            after_steps = {r[0]: r[1] for r in db.execute("SELECT node, state FROM step").fetchall()}
            after_files = {r[0]: r for r in db.execute("SELECT node, state, hash FROM file").fetchall()}
        bad = []
        opt = {n for n, st, need, det in before_steps if need == 31 and not det}
        for n, st, need, det in before_steps:
            want = 21 if n in opt else st
            if after_steps[n] != want:
                bad.append(("step", n, after_steps[n], want))
        queued = dict(wf.to_be_deleted)
        for f, (fn, st, h) in before_files.items():
            mine = any(s in opt and k == f for s, k in outs)
            if mine and st in (16, 17):
                if after_files[f][1] != 15 or after_files[f][2] is not None or queued.get(labels[f]) is None:
                    bad.append(("regular output", f, after_files[f], queued.get(labels[f])))
            elif mine and st == 18:
                if after_files[f][1] != 18 or labels[f] not in queued or queued[labels[f]] is not None:
                    bad.append(("volatile output", f))
            else:
                if after_files[f] != (fn, st, h) or labels[f] in queued:
                    bad.append(("untouched file", f))
        print("optional attached steps:", sorted(opt), "queue:", {k: (None if v is None else "hash") for k, v in queued.items()}, "problems:", bad)
        return 1 if bad else 0
'''


def o11_4(tier):
    import stepup.core.finalize as fin

    res = ObResult()
    K, D = (3, 2) if tier == "quick" else (4, 3)
    res.bounds = f"{K} node slots (root + {K - 1} steps/files), {D} dependency edges; all states/needs/hashes symbolic"
    res.encoded += [enc(fin.revert_optional_steps), enc(fin.CREATE_OPTIONAL_STEP_TABLE, "finalize.CREATE_OPTIONAL_STEP_TABLE"), enc(fin.CREATE_OPTIONAL_TO_BE_DELETED_TABLE, "finalize.CREATE_OPTIONAL_TO_BE_DELETED_TABLE"), enc(fin.UPDATE_OPTIONAL_STEPS, "finalize.UPDATE_OPTIONAL_STEPS"), enc(fin.UPDATE_OPTIONAL_TO_BE_DELETED, "finalize.UPDATE_OPTIONAL_TO_BE_DELETED")]
    FileState, StepState, Need = enums()

    def pre(wf):
        return []

    def action(wf, w, s, aux):
        async def rep(*a, **k):
            return None

        aux["pre"] = wf.ctx.copy_state()
        drive(fin.revert_optional_steps(w, rep))
        aux["queue"] = dict(w.to_be_deleted)

    def post(wf, aux):
        pre_t = aux["pre"]
        psteps, pfiles, pnodes, pdeps = pre_t["step"].rows, pre_t["file"].rows, pre_t["node"].rows, pre_t["dependency"].rows
        bad = []
        opt = []
        for j in range(wf.K):
            o = z3.And(bz(psteps[j].present), psteps[j].vals["_implied_need"].v == Need.OPTIONAL.value, pnodes[j].vals["detached"].v == 0)
            opt.append(o)
            want = z3.If(o, z3.IntVal(StepState.PENDING.value), psteps[j].vals["state"].v)
            bad.append(z3.And(bz(psteps[j].present), wf.steps[j].vals["state"].v != want))
        queue = aux["queue"]
        pool = wf.ctx.pool
        for f in range(wf.K):
            pf = pfiles[f]
            mine = z3.Or(*[z3.And(bz(d.present), d.vals["sink"].v == f + 1, z3.Or(*[z3.And(d.vals["source"].v == s + 1, opt[s]) for s in range(wf.K)])) for d in pdeps])
            st = pf.vals["state"].v
            regular = z3.And(bz(pf.present), mine, z3.Or(st == FileState.BUILT.value, st == FileState.OUTDATED.value))
            vol = z3.And(bz(pf.present), mine, st == FileState.VOLATILE.value)
            nf = wf.files[f]
            bad.append(z3.And(regular, z3.Not(z3.And(nf.vals["state"].v == FileState.PLANNED.value, bz(nf.vals["hash"].n)))))
            bad.append(z3.And(vol, nf.vals["state"].v != FileState.VOLATILE.value))
            other = z3.And(bz(pf.present), z3.Not(regular), z3.Not(vol))
            same = z3.And(nf.vals["state"].v == st, bz(nf.vals["hash"].n) == bz(pf.vals["hash"].n))
            bad.append(z3.And(other, z3.Not(same)))
            # the queue (python dict, concretised on this path): label -> hash or None
            lab = pnodes[f].vals["label"].v
            for name in wf.labels:
                a = pool.atom(name)
                inq = name in queue
                bad.append(z3.And(lab == a, z3.Or(regular, vol), not inq))
                bad.append(z3.And(lab == a, other, inq, z3.Not(z3.Or(*[z3.And(pnodes[g].vals["label"].v == a, g != f) for g in range(wf.K)]))))
                if inq:
                    bad.append(z3.And(lab == a, regular, queue[name] is None))
                    bad.append(z3.And(lab == a, vol, queue[name] is not None))
        return bad

    def viol(res, wf0, m, content, which, aux):
        _replay_generic(res, "O11.4", "O11.4:revert", content, BODY_REVERT, "revert_optional_steps reverts or queues the wrong things")

    c = _explore(res, "revert_optional_steps", K, D, pre, action, post, on_violation=viol, max_paths=3000, labels=["a", "b", "d/x"])
    res.twin("paths explored", "sat" if c["paths"] >= 2 else "unsat", 0.0)
    res.nontrivial = len(res.queries)
    return res


def _xh(oid, cond, pre_q, pre_t, what, tq=300, tt=1500):
    def fn(tier):
        import stepup.core.tui as tui
        import stepup.core.workflow as wfm

        res = ObResult()
        pre = pre_q if tier == "quick" else pre_t
        res.bounds = pre
        res.encoded += [enc(tui._normalize_targets), enc(wfm.Workflow.need_threshold.fget, "workflow.Workflow.need_threshold")]
        xh.run_condition(res, "C11", oid, "harness.c11", cond, pre, tq if tier == "quick" else tt, what=what)
        res.nontrivial = 1
        return res

    return fn


OBLIGATIONS = [
    Ob("O11.1", C10.o10_2_after, "the cached need equals the least fixed point after recomputation (= C10/O10.2a)", weight=5, timeout={"quick": 2400, "thorough": 7200}),
    Ob("O11.2", _xh("O11.2", "need_threshold", "0 <= nt <= 2 and 0 <= nd <= 2", "0 <= nt <= 3 and 0 <= nd <= 3", "need threshold is DEFAULT iff targets are given"), "dispatch threshold follows the presence of targets"),
    Ob("O11.3", o11_3, "reconcile_targets flags every step whose need may be stale after a change of targets", weight=5, timeout={"quick": 2400, "thorough": 7200}),
    Ob("O11.4", o11_4, "revert_optional_steps reverts exactly the executed optional steps and queues their outputs", weight=5, timeout={"quick": 2400, "thorough": 7200}),
    Ob("O11.5", _xh("O11.5", "normalize_target", "len(raw) <= 3 and 0 <= sub <= 1", "len(raw) <= 4 and all(c in '/.ab' for c in raw) and 0 <= sub <= 1", "raw targets: directory iff trailing slash; normalised root-relative result"), "tui._normalize_targets", weight=2),
    Ob("O11.6", C10.mk_o10_3("Step.del_sources([file])"), "dropping an input edge flags the producer (C10/O10.3)", weight=2, timeout={"quick": 2400, "thorough": 7200}),
    Ob("O11.7", C10.mk_o10_3("Step.detach"), "detaching a consumer flags the producers of its inputs (C10/O10.3)", weight=4, timeout={"quick": 2400, "thorough": 7200}),
]
