"""C09 - the stored workflow satisfies its invariants after every transaction (E-SQL).

Inductive step: from ANY database state within the capacity bound that satisfies the schema and the
invariants, one operation performed by the real methods leads to a state that satisfies the
invariants again, and raises no internal error.  The operations are the ones that the director's
request handlers and the build loop are composed of.
"""

from __future__ import annotations

import z3

from vf.props import C10
from vf.props.C10 import _explore, _replay_generic
from vf.runner import Ob, ObResult, enc
from vf.symsql.model import enums
from vf.symsql.values import V, bz

CLAIM = (
    "C09: every graph operation that requests and the build loop are composed of (detach, reattach, "
    "delete_detached, add_source, mark_completed, update_file_hashes for every cause, mark_step_pending, "
    "the recycle branch of create) maps a state satisfying the invariants of the statement (detached iff "
    "unreachable from the root through creator links; dependencies acyclic and only between files and "
    "steps; UNDECLARED implies detached; outputs of a SUCCEEDED step are BUILT or VOLATILE; state and "
    "hash presence agree) to a state satisfying them, and raises no internal error; inductive, so it "
    "covers sequences of any length composed of these operations."
)
OUTSIDE = [
    "INSERT of brand-new nodes (define_step, declare_static_files as a whole): their row-level effects are covered by CHECK constraints, the composite request handlers are not run as a whole",
    "documented state transitions of steps as a temporal property (only the file transition table is reached, through update_file_hashes)",
]
ASSUMPTIONS = C10.ASSUMPTIONS

def _node(cls, w, wf, run, name, kind):
    """A node object whose id is symbolic among the present nodes of that kind.  The id is a LazyInt:
    it stays symbolic as an SQL parameter and compares (forking) against other ids in Python."""
    from vf.symsql.executor import LazyInt

    i = z3.Int(name)
    run.assume(z3.Or(*[z3.And(i == j + 1, wf.is_kind(j, kind)) for j in range(wf.K)]))
    return cls(w, LazyInt(run, i, name), "lbl"), i


PROPERTY_TAGS = ("I1", "I2", "I3", "I4", "I4s", "I5", "I7")
AUX_TAGS = ("I6", "I8", "I9")

# plain-Python oracle used by the replay scripts: independent of the z3 model and of _check_consistency
CHECKER = '''        def broken(db):
            bad = []
            nodes = {r[0]: r for r in db.execute("SELECT i, kind, label, creator, detached FROM node").fetchall()}
            reach = {1}
            grew = True
            while grew:
                grew = False
                for i, (_, kind, label, creator, det) in nodes.items():
                    if i not in reach and creator in reach and creator != i:
                        reach.add(i); grew = True
            for i, (_, kind, label, creator, det) in nodes.items():
                if i != 1 and bool(det) != (i not in reach):
                    bad.append(("I1 detached flag disagrees with reachability", i))
                if creator is not None and creator not in nodes:
                    bad.append(("I7 creator missing", i))
            deps = db.execute("SELECT source, sink FROM dependency").fetchall()
            for a, b in deps:
                ka, kb = nodes[a][1], nodes[b][1]
                if (ka, kb) not in (("file", "step"), ("step", "file"), ("st", "file")):
                    bad.append(("I2 dependency kinds", a, b))
            clo = set(deps)
            grew = True
            while grew:
                grew = False
                for a, b in list(clo):
                    for c, d in deps:
                        if b == c and (a, d) not in clo:
                            clo.add((a, d)); grew = True
            if any(a == b for a, b in clo):
                bad.append(("I2 dependency cycle",))
            files = {r[0]: r for r in db.execute("SELECT node, state, hash FROM file").fetchall()}
            steps = {r[0]: r for r in db.execute("SELECT node, state, _has_hash FROM step").fetchall()}
            for f, (_, st, h) in files.items():
                if st == 11 and not nodes[f][4]:
                    bad.append(("I3 attached UNDECLARED file", f))
                if st in (14, 16, 17) and h is None:
                    bad.append(("I5 state requires a hash", f))
                if st in (13, 15, 18) and h is not None:
                    bad.append(("I5 state forbids a hash", f))
            for a, b in deps:
                if a in steps and b in files and steps[a][1] == 23 and (not nodes[b][4] or nodes[b][3] == a) and files[b][1] not in (16, 18):
                    bad.append(("I4 output of SUCCEEDED step not BUILT", a, b))
            for s, (_, st, hh) in steps.items():
                n = db.execute("SELECT count(*) FROM step_hash WHERE node = ?", (s,)).fetchone()[0]
                if bool(hh) != bool(n):
                    bad.append(("I5 _has_hash", s))
            return bad
'''

BODY_OP = '''        import os
        os.environ["STEPUP_DEBUG"] = "1"
        from stepup.core.file import File
        from stepup.core.step import Step
        from stepup.core.trellis import Root, Trellis
        from stepup.core.enums import FileState, StepState, HashUpdateCause
        from stepup.core.hash import FileHash, StepHash
        from stepup.core.exceptions import UsageError
        print("operation:", op, "arguments:", margs)
        def lab(i):
            return db.execute("SELECT label FROM node WHERE i = ?", (i,)).fetchone()[0]
        def node(i):
            kind = db.execute("SELECT kind FROM node WHERE i = ?", (i,)).fetchone()[0]
            return {"file": File, "step": Step, "root": Root}[kind](wf, i, lab(i))
        known = FileHash(digest=b"\\x01" * 32, mode=0o100644, mtime=1.0, size=3, inode=7)
        def snap(db):
            return {
                "node": {r[0]: r for r in db.execute("SELECT i, kind, label, creator, detached FROM node").fetchall()},
                "file": {r[0]: r for r in db.execute("SELECT node, state, hash FROM file").fetchall()},
                "step": {r[0]: r for r in db.execute("SELECT node, state, deferred, _has_hash, _holding FROM step").fetchall()},
                "res": db.execute("SELECT node, name, units FROM step_resource").fetchall(),
                "dep": db.execute("SELECT dependency.i, source, sink, dynamic_dep.i IS NOT NULL FROM dependency LEFT JOIN dynamic_dep ON dynamic_dep.i = dependency.i").fetchall(),
            }
        async with db:
            before = broken(db)
            S0 = snap(db)
            try:
                if op == "detach": node(margs["m.node"]).detach()
                elif op == "reattach": node(margs["m.node"]).reattach(node(margs["m.creator"]))
                elif op == "delete_detached": wf.delete_detached()
                elif op.startswith("amend_step"):
                    what = op.split("(")[1].rstrip(")")
                    wf.amend_step(node(margs["m.step"]), **{what: [LABELS[margs["m.label"]]]}, ran_concurrently=lambda a, b: False)
                elif op == "mark_completed(success)": node(margs["m.step"]).mark_completed(StepHash(b"x" * 32, None, b"y" * 32, None), False)
                elif op == "mark_completed(failure)": node(margs["m.step"]).mark_completed(None, bool(margs["m.defer"]))
                elif op == "mark_step_pending": wf.mark_step_pending(node(margs["m.step"]))
                elif op.startswith("update_file_hashes"):
                    cause = HashUpdateCause[op.split("(")[1].rstrip(")")]
                    fh = known if margs["m.known"] else FileHash.unknown()
                    wf.update_file_hashes({lab(margs["m.file"]): fh}, cause=cause)
                elif op.startswith("try_recycle(Step"):
                    Step.can_recycle = lambda self, **kw: True
                    Step.adjust_label = classmethod(lambda cls, label, **kw: label)
                    kw = {}
                    if "resources" in op:
                        kw["resources"] = {"p": margs["m.flag"]} if margs["m.flag"] else None
                    if wf.try_recycle(Step, node(margs["m.creator"]), lab(margs["m.step"]), **kw) is None:
                        return 2
                elif op == "create(recycle)":
                    wf.create(File, node(margs["m.creator"]), lab(margs["m.file"]), state=FileState(margs["m.newstate"]))
                else: raise SystemExit(2)
            except UsageError as exc:
                print("rejected:", type(exc).__name__, exc)
                return 0
            except Exception as exc:
                import traceback; traceback.print_exc()
                print("internal error from a state that satisfies the invariants:", before == [], type(exc).__name__, exc)
                return 1 if not before else 2
            after = broken(db)
            S1 = snap(db)
            try:
                wf._check_consistency()
                cc = None
            except Exception as exc:
                cc = f"{type(exc).__name__}: {exc}"
        print("invariants broken before:", before, "after:", after, "_check_consistency:", cc)
        if before:
            return 2
        if JUDGE is not None:
            extra = JUDGE(S0, S1, margs)
            print("judge:", extra)
            if extra and extra[0] == "precondition":
                return 2
            return 1 if (extra or after or cc) else 0
        return 1 if (after or cc) else 0
'''


def operations():
    from stepup.core.file import File
    from stepup.core.step import Step
    from stepup.core.trellis import Node, Root

    FileState, StepState, Need = enums()
    OPS = {}

    def any_node(w, wf, run, name, kinds=("file", "step"), allow_root=False):
        """(object of the right class, id term); forks on the kind (class dispatch is concrete)."""
        from vf.symsql.executor import LazyInt

        i = z3.Int(name)
        lo = 1 if allow_root else 2
        run.assume(z3.And(i >= lo, i <= wf.K))
        run.assume(z3.Or(*[z3.And(i == j + 1, bz(wf.nodes[j].present)) for j in range(wf.K)]))
        for kind, cls in (("file", File), ("step", Step), ("root", Root)):
            if kind not in kinds and not (kind == "root" and allow_root):
                run.assume(z3.Not(z3.Or(*[z3.And(i == j + 1, wf.is_kind(j, kind)) for j in range(wf.K)])))
        run.assume(z3.Not(z3.Or(*[z3.And(i == j + 1, wf.is_kind(j, "st")) for j in range(wf.K)])))
        for kind, cls in (("file", File), ("step", Step), ("root", Root)):
            if run.decide_bool(z3.Or(*[z3.And(i == j + 1, wf.is_kind(j, kind)) for j in range(wf.K)])):
                return cls(w, LazyInt(run, i, name), "lbl"), i
        raise AssertionError("unreachable")

    def detach(wf, w, s, run, aux):
        n, _ = any_node(w, wf, run, "m.node")
        n.detach()

    OPS["detach"] = detach

    def reattach(wf, w, s, run, aux):
        # Node.reattach is only reached through Trellis.try_recycle, and only Step overrides
        # can_recycle: the node is a detached step; the new creator is the declaring step or the
        # root, attached or not, but not one of the node's own descendants (a creator cycle among
        # detached nodes: outside, reported by the unwinding guard of the recursive CTEs)
        n, i = _node(Step, w, wf, run, "m.node", "step")
        c, ci = any_node(w, wf, run, "m.creator", kinds=("step",), allow_root=True)
        run.assume(i != ci)
        for j in range(wf.K):
            run.assume(z3.Implies(i == j + 1, wf.nodes[j].vals["detached"].v == 1))
            for k in range(wf.K):
                run.assume(z3.Implies(z3.And(i == j + 1, ci == k + 1), z3.Int(f"crk[{k}]") < z3.Int(f"crk[{j}]")))
        n.reattach(c)

    OPS["reattach"] = reattach

    def delete_detached(wf, w, s, run, aux):
        w.delete_detached()

    OPS["delete_detached"] = delete_detached

    def pick_label(wf, run, name):
        """Concretise a path among the labels of the bound (requests name paths as text)."""
        k = z3.Int(name)
        run.assume(z3.And(k >= 0, k < len(wf.labels)))
        for idx, lab in enumerate(wf.labels):
            if run.decide_bool(k == idx):
                return lab
        raise AssertionError("unreachable")

    def stub_env(wf, w, run):
        """Static trees are outside this obligation: no 'st' node is present, so the owner lookup
        (substr/length over labels) returns None; the directory watcher queue is not part of the state."""
        for j in range(wf.K):
            run.assume(z3.Not(wf.is_kind(j, "st")))
        cls = type(w)  # slots class: patch the class (each obligation runs in its own process)
        cls._find_owning_static_tree = lambda self, path: None
        cls.watch_dir = lambda self, path: None

    def mk_amend(what):
        def amend(wf, w, s, run, aux):
            # the real Workflow.amend_step for ONE additional path (input, output or volatile output)
            import stepup.core.hash as hm

            stp, i = _node(Step, w, wf, run, "m.step", "step")
            stub_env(wf, w, run)
            for j in range(wf.K):
                # a step amends itself while it runs
                run.assume(z3.Implies(i == j + 1, wf.steps[j].vals["state"].v == StepState.RUNNING.value))
            label = pick_label(wf, run, "m.label")
            hm.FileHash.from_json = classmethod(lambda cls, txt: None)  # returned to the caller only
            w.amend_step(stp, **{what: [label]}, ran_concurrently=lambda a, b: False)

        return amend

    for what in ("inp_paths", "out_paths", "vol_paths"):
        OPS[f"amend_step({what})"] = mk_amend(what)

    def completed_ok(wf, w, s, run, aux):
        stp, i = _node(Step, w, wf, run, "m.step", "step")
        for j in range(wf.K):
            mine = i == j + 1
            run.assume(z3.Implies(mine, z3.Or(wf.steps[j].vals["state"].v == StepState.RUNNING.value, wf.steps[j].vals["state"].v == StepState.CHECKING.value)))
            # Executor.execute_job records a success only after update_file_hashes(cause=SUCCEEDED)
            # stored a hash for every declared output (a missing output fails the step): no attached
            # output of the step is PLANNED at this point
            for f in range(wf.K):
                out = z3.And(wf.dep_edge(j, f), bz(wf.files[f].present), z3.Or(wf.nodes[f].vals["detached"].v == 0, wf.creator_is(f, j)))
                run.assume(z3.Implies(z3.And(mine, out), wf.files[f].vals["state"].v != FileState.PLANNED.value))

        class H:
            def to_json(self):
                from vf.symsql import live

                return live.step_hash_json_pool()[0]

        stp.mark_completed(H(), False)

    OPS["mark_completed(success)"] = completed_ok

    def completed_fail(wf, w, s, run, aux):
        stp, i = _node(Step, w, wf, run, "m.step", "step")
        for j in range(wf.K):
            run.assume(z3.Implies(i == j + 1, z3.Or(wf.steps[j].vals["state"].v == StepState.RUNNING.value, wf.steps[j].vals["state"].v == StepState.CHECKING.value)))
        d = z3.Int("m.defer")
        run.assume(z3.Or(d == 0, d == 1))
        object.__setattr__(w, "defer_cap", 1)
        stp.mark_completed(None, run.decide_bool(d == 1))

    OPS["mark_completed(failure)"] = completed_fail

    def step_pending(wf, w, s, run, aux):
        stp, i = _node(Step, w, wf, run, "m.step", "step")
        w.mark_step_pending(stp)

    OPS["mark_step_pending"] = step_pending

    def mk_update(cause_name):
        def update(wf, w, s, run, aux):
            from stepup.core.enums import HashUpdateCause

            from vf.symsql import live

            from stepup.core.workflow import _HASH_TRANSITIONS

            fi = z3.Int("m.file")
            run.assume(z3.Or(*[z3.And(fi == j + 1, wf.is_kind(j, "file")) for j in range(wf.K)]))
            k = z3.Int("m.known")
            run.assume(z3.Or(k == 0, k == 1))
            known = run.decide_bool(k == 1)
            # the request names a path; labels are interchangeable for this operation (no targets, no
            # globs, no static trees in the bounded state): the file is the one labelled LABELS[0]
            label = wf.labels[0]
            for j in range(wf.K):
                run.assume(z3.Implies(fi == j + 1, wf.nodes[j].vals["label"].v == wf.ctx.pool.atom(label)))
            # the callers apply a cause only to files in the states the transition table lists for it
            # (EXTERNAL: watcher/rescan on static and built files; SUCCEEDED/FAILED: the outputs and inputs
            # of the finished step; CONFIRMED: files being confirmed); any other combination raises
            # ConsistencyError by design
            cause = HashUpdateCause[cause_name]
            dom = [st for (c, st, kn) in _HASH_TRANSITIONS if c == cause and kn == known]
            for j in range(wf.K):
                run.assume(z3.Implies(fi == j + 1, z3.Or(*[wf.files[j].vals["state"].v == st.value for st in dom]) if dom else z3.BoolVal(False)))

            class FH:
                is_unknown = not known
                digest = b"\x01" * 32
                mode = 0o100644

                def to_json(self):
                    return live.hash_json_pool()[0] if known else None

            if not known:
                # FileHash.unknown().to_json() is a JSON string too; the file_clear_hash trigger and the
                # CHECK constraint decide what is stored: use the real text
                from stepup.core.hash import FileHash

                txt = FileHash.unknown().to_json()
                FH.to_json = lambda self: txt
            w.update_file_hashes({label: FH()}, cause=HashUpdateCause[cause_name])

        return update

    for cn in ("EXTERNAL", "SUCCEEDED", "FAILED", "CONFIRMED"):
        OPS[f"update_file_hashes({cn})"] = mk_update(cn)

    def create_recycle(wf, w, s, run, aux):
        stub_env(wf, w, run)
        # the fallback branch of Trellis.create: a detached file node with this label exists and is
        # reused as a fresh declaration by `creator` in state `newstate`
        fi = z3.Int("m.file")
        run.assume(z3.Or(*[z3.And(fi == j + 1, wf.is_kind(j, "file"), wf.nodes[j].vals["detached"].v == 1) for j in range(wf.K)]))
        c, ci = any_node(w, wf, run, "m.creator", kinds=("step",), allow_root=True)
        st = z3.Int("m.newstate")
        label = None
        for lab in wf.labels:
            if run.decide_bool(z3.Or(*[z3.And(fi == j + 1, wf.nodes[j].vals["label"].v == wf.ctx.pool.atom(lab)) for j in range(wf.K)])):
                label = lab
                break
        if label is None:
            run.assume(z3.BoolVal(False))
        # declarations create files as UNCONFIRMED/MISSING (static), PLANNED (output), VOLATILE, or
        # UNDECLARED (placeholder for an input nobody declares; only below a detached... see callers)
        choices = [FileState.UNCONFIRMED, FileState.PLANNED, FileState.VOLATILE]
        run.assume(z3.Or(*[st == x.value for x in choices]))
        for x in choices:
            if run.decide_bool(st == x.value):
                w.create(File, c, label, state=x)
                return
        raise AssertionError("unreachable")

    OPS["create(recycle)"] = create_recycle

    def try_recycle(wf, w, s, run, aux):
        # Trellis.try_recycle for a detached step, by an ATTACHED creator (the declaring step or the root).
        # Step.can_recycle (compatibility of the declaration) is stubbed to True; the label of the bound
        # is taken as the adjusted label; need/shell/resources/env_overrides default, duration None.
        from vf.symsql.executor import LazyInt

        si = z3.Int("m.step")
        run.assume(z3.Or(*[z3.And(si == j + 1, wf.is_kind(j, "step"), wf.nodes[j].vals["detached"].v == 1) for j in range(wf.K)]))
        ci = z3.Int("m.creator")
        run.assume(z3.Or(ci == 1, *[z3.And(ci == j + 1, wf.is_kind(j, "step")) for j in range(1, wf.K)]))
        run.assume(ci != si)
        for j in range(wf.K):
            run.assume(z3.Implies(ci == j + 1, wf.nodes[j].vals["detached"].v == 0))
        c = w.root if run.decide_bool(ci == 1) else Step(w, LazyInt(run, ci, "m.creator"), "lbl")
        label = None
        for lab in wf.labels:
            if run.decide_bool(z3.Or(*[z3.And(si == j + 1, wf.nodes[j].vals["label"].v == wf.ctx.pool.atom(lab)) for j in range(wf.K)])):
                label = lab
                break
        if label is None:
            run.assume(z3.BoolVal(False))
        Step.can_recycle = lambda self, **kw: True
        Step.adjust_label = classmethod(lambda cls, label, **kw: label)
        kwargs = {}
        if aux.get("with_resources"):
            u = z3.Int("m.flag")
            run.assume(z3.And(u >= 0, u <= 2))
            units = next(x for x in (0, 1, 2) if run.decide_bool(u == x))
            kwargs["resources"] = {"p": units} if units else None
            aux["resources"] = kwargs["resources"]
        aux["got"] = w.try_recycle(Step, c, label, **kwargs)

    OPS["try_recycle(Step)"] = try_recycle

    def try_recycle_res(wf, w, s, run, aux):
        aux["with_resources"] = True
        try_recycle(wf, w, s, run, aux)

    OPS["try_recycle(Step, resources)"] = try_recycle_res
    return OPS


OP_NAMES = [
    "detach",
    "reattach",
    "delete_detached",
    "amend_step(inp_paths)",
    "amend_step(out_paths)",
    "amend_step(vol_paths)",
    "mark_completed(success)",
    "mark_completed(failure)",
    "mark_step_pending",
    "update_file_hashes(EXTERNAL)",
    "update_file_hashes(SUCCEEDED)",
    "update_file_hashes(FAILED)",
    "update_file_hashes(CONFIRMED)",
    "create(recycle)",
    "try_recycle(Step)",
]

LABELS = ["a", "b", "d/x"]
SMALL = ("amend_step(inp_paths)", "amend_step(out_paths)", "amend_step(vol_paths)")
LIGHT = ("detach",)
BIG = ("delete_detached", "reattach", "create(recycle)", "try_recycle(Step)")


def _encoded():
    import stepup.core.file as fm
    import stepup.core.step as stp
    import stepup.core.trellis as tr
    import stepup.core.workflow as wfm

    return [
        enc(tr.TRELLIS_SCHEMA, "trellis.TRELLIS_SCHEMA"),
        enc(tr.RECURSIVELY_SET_DETACHED, "trellis.RECURSIVELY_SET_DETACHED"),
        enc(tr.RECURSE_SINKS, "trellis.RECURSE_SINKS"),
        enc(tr.Node.detach),
        enc(tr.Node.reattach),
        enc(tr.Node.add_source),
        enc(tr.Trellis.delete_detached),
        enc(tr.Trellis.create),
        enc(stp.Step.mark_completed),
        enc(stp.STEP_SCHEMA, "step.STEP_SCHEMA (triggers)"),
        enc(wfm.Workflow.update_file_hashes),
        enc(wfm._HASH_TRANSITIONS, "workflow._HASH_TRANSITIONS"),
        enc(wfm.Workflow.amend_step),
        enc(wfm.Workflow._supply_files),
        enc(wfm.Workflow._resolve_supply_file),
        enc(wfm.Workflow._declare_file),
        enc(wfm.Workflow._check_declaration),
        enc(wfm.Workflow._existing_claim),
        enc(wfm.Workflow.mark_step_pending),
        enc(wfm.Workflow.mark_file_outdated),
        enc(wfm.Workflow.handle_updated_file),
        enc(wfm.Workflow.handle_deleted_file),
        enc(wfm.Workflow.mark_consuming_steps_pending),
        enc(fm.File.initialize_row),
        enc(fm.FILE_SCHEMA, "file.FILE_SCHEMA"),
    ]


HEAVY = ("delete_detached", "create(recycle)", "try_recycle(Step)", "try_recycle(Step, resources)", "update_file_hashes(EXTERNAL)", "update_file_hashes(FAILED)")


def bounds_for(name, tier):
    """Capacities per operation, sized by measured path counts (one path = one concrete shape of
    what the operation reads): quick finishes in minutes on a shared machine, thorough in an hour."""
    labels = LABELS
    if name in SMALL:
        K, D = (3, 2) if tier == "quick" else (4, 2)
        labels = LABELS[:2]
    elif name in LIGHT:
        K, D = (4, 3) if tier == "quick" else (5, 3)
    elif name == "delete_detached":
        # every deleted node's label is looked at (parent directory, working directory): 2 labels quick
        # measured: K=3/D=1 384 paths, K=4/D=1 10279 paths (2 labels)
        K, D = (3, 1) if tier == "quick" else (4, 1)
        labels = ["a", "d/x"]
    elif name in HEAVY:
        K, D = (4, 1) if tier == "quick" else (4, 2)  # try_recycle at (4, 2): 7236 paths
    else:
        K, D = (4, 2) if tier == "quick" else (4, 3)  # mark_step_pending at (4, 3): 1707 paths
    return K, D, labels


def forest(wf):
    """Creator links form a forest among present nodes (creator cycles among detached nodes are
    outside: the unwinding guard of the recursive CTEs reports them)."""
    rank = [z3.Int(f"crk[{j}]") for j in range(wf.K)]
    cons = []
    for j in range(wf.K):
        for c in range(wf.K):
            if c != j:
                cons.append(z3.Implies(z3.And(bz(wf.nodes[j].present), wf.creator_is(j, c)), rank[c] < rank[j]))
    return cons


MARGS = ("m.node", "m.creator", "m.step", "m.file", "m.known", "m.defer", "m.newstate", "m.label", "m.flag")


def explore_op(res, oid, name, tier, post, what, judge_src=None, extra_pre=None, key=None, bounds=None, max_paths=None):
    """One operation from any state satisfying the schema and the invariants; `post(wf, aux)` returns
    the list of formulas that must be unsatisfiable afterwards (aux['pre'] is the state before)."""
    K, D, labels = bounds or bounds_for(name, tier)
    res.bounds = f"operation {name}: {K} node slots, {D} dependency edges, labels {labels}; from any state satisfying the schema and I1-I9; node ids, states, hashes, labels symbolic"
    res.encoded += _encoded()
    op = operations()[name]

    def pre(wf):
        cons = [c for c, t in zip(wf.inv(strong_i4=True), wf.inv_tags) if t == "I4s"] + forest(wf)
        if extra_pre is not None:
            cons += extra_pre(wf)
        return cons

    def action(wf, w, s, aux):
        aux["pre"] = wf.ctx.copy_state()
        op(wf, w, s, w.db.run, aux)

    def viol(res, wf0, m, content, which, aux):
        margs = {v: m.eval(z3.Int(v), model_completion=True).as_long() for v in MARGS}
        body = f"        op = {name!r}\n        margs = {margs!r}\n        LABELS = {LABELS!r}\n" + CHECKER + (judge_src or "        JUDGE = None\n") + BODY_OP
        _replay_generic(res, oid, key or f"{oid}:{name}", content, body, f"{name}: {what}")

    c = _explore(res, name, K, D, pre, action, post, on_violation=viol, lazy_enums=True, internal_error_violates=True, max_paths=max_paths or (3000 if tier == "quick" else 30000), allow_integrity=True, labels=labels)
    res.twin("operation paths explored", "sat" if c["paths"] >= 1 else "unsat", 0.0)
    res.nontrivial = len(res.queries)
    return res


def inv_post(wf, aux):
    clauses = wf.inv(acyclic_by_rank=False, strong_i4=True)
    bad = [z3.Not(c) for c, t in zip(clauses, wf.inv_tags) if t in PROPERTY_TAGS]
    bad.append(z3.Not(wf.acyclic()))
    return bad


def mk(name):
    def fn(tier):
        return explore_op(ObResult(), "O09", name, tier, inv_post, "breaks an invariant of the stored workflow", key=f"O9:{name}")

    return fn


OBLIGATIONS = [
    Ob(f"O9.{k}", mk(n), f"{n} preserves the invariants and raises no internal error", weight=4 if n in BIG else 2, timeout={"quick": 2400, "thorough": 7200})
    for k, n in enumerate(OP_NAMES)
]
