"""C05 - a build killed at any point is completed correctly after restart (recovery half, E-SQL)."""

from __future__ import annotations

import z3

from vf.props import C09, C10
from vf.props.C09 import _node
from vf.props.C10 import _explore, _replay_generic
from vf.runner import Ob, ObResult, enc
from vf.symsql.executor import drive
from vf.symsql.model import enums
from vf.symsql.values import bz

CLAIM = (
    "C05 (recovery half): the database found after a kill is a committed state (trusted: SQLite), hence by "
    "C09 a state satisfying the invariants, possibly with RUNNING/CHECKING steps and hold counters.  From "
    "ANY such state within the bound the real reset_interrupted_steps leaves no step RUNNING or CHECKING, "
    "no attached step FAILED, every attached interrupted step PENDING, schedulable (not deferred, not "
    "holding) and with no output still BUILT, and the invariants of C09 hold; a detached step that was "
    "interrupted is retried when it is recycled (try_recycle never yields a FAILED or holding step)."
)
OUTSIDE = [
    "atomicity of commits and WAL durability (SQLite)",
    "crash points inside a step's own file-system actions",
    "Workflow.to_be_deleted is memory only: a kill between delete_detached and remove_deletable_files leaves files behind; not reachable by this technique",
    "equality of the completed build with an uninterrupted one (C01/C10 mechanisms)",
]
ASSUMPTIONS = C10.ASSUMPTIONS

BODY_RESET = '''        import os
        os.environ["STEPUP_DEBUG"] = "1"
        from stepup.core.startup import reset_interrupted_steps
        async def rep(*a, **k):
            return None
        async with db:
            before = broken(db)
            was = db.execute("SELECT step.node, state, node.detached FROM step JOIN node ON node.i = step.node").fetchall()
            outs = db.execute("SELECT source, sink FROM dependency JOIN step ON step.node = source").fetchall()
        await reset_interrupted_steps(wf, rep)
        bad = []
        async with db:
            now = {r[0]: r for r in db.execute("SELECT node, state, deferred, _holding FROM step").fetchall()}
            fstate = dict(db.execute("SELECT node, state FROM file").fetchall())
            after = broken(db)
            try:
                wf._check_consistency(); cc = None
            except Exception as exc:
                cc = f"{type(exc).__name__}: {exc}"
        for n, st, det in was:
            _, s2, deferred, holding = now[n]
            if s2 in (22, 25): bad.append(("still RUNNING/CHECKING", n, s2))
            if holding: bad.append(("still holding", n))
            if not det and s2 == 24: bad.append(("attached step left FAILED", n))
            if not det and st in (22, 25, 24) and (s2 != 21 or deferred): bad.append(("interrupted step not PENDING and schedulable", n, s2, deferred))
            if not det and st == 22:
                for a, b in outs:
                    if a == n and fstate.get(b) == 16: bad.append(("output of an interrupted step still BUILT", n, b))
        print("steps before (node, state, detached):", was, "after:", sorted(now.values()), "problems:", bad, "invariants before/after:", before, after, cc)
        if before: return 2
        return 1 if (bad or after or cc) else 0
'''

_UNUSED_BODY_RECYCLE = '''        from stepup.core.step import Step
        Step.can_recycle = lambda self, **kw: True
        async with db:
            lab = db.execute("SELECT label FROM node WHERE i = ?", (margs["m.step"],)).fetchone()[0]
            clab = db.execute("SELECT kind, label FROM node WHERE i = ?", (margs["m.creator"],)).fetchone()
            creator = wf.node_from_row(margs["m.creator"], *clab)
            cmd, workdir = lab, "."
            if "  # wd=" in lab:
                cmd, workdir = lab.split("  # wd=")
            got = wf.try_recycle(Step, creator, cmd, workdir=workdir)
            row = db.execute("SELECT state, _holding FROM step WHERE node = ?", (margs["m.step"],)).fetchone()
        print("recycled:", got, "state, _holding:", row)
        if got is None: return 2
        return 1 if (row[0] == 24 or row[1] != 0) else 0
'''


def o5_1(tier):
    import stepup.core.startup as su
    import stepup.core.step as stp
    import stepup.core.workflow as wfm

    res = ObResult()
    K, D = (4, 3) if tier == "quick" else (4, 4)
    res.bounds = f"{K} node slots, {D} dependency edges; any state satisfying the schema and I1-I9 (steps RUNNING/CHECKING/FAILED, hold counters, deferred flags arbitrary)"
    res.encoded += [enc(su.reset_interrupted_steps), enc(wfm.Workflow.steps), enc(wfm.Workflow.mark_step_pending), enc(wfm.Workflow.mark_file_outdated), enc(wfm.Workflow.mark_consuming_steps_pending), enc(stp.STEP_SCHEMA, "step.STEP_SCHEMA (triggers step_reset_holding, step_clear_deferred)")]
    FileState, StepState, Need = enums()

    def pre(wf):
        rank = [z3.Int(f"crk[{j}]") for j in range(wf.K)]
        cons = []
        for j in range(wf.K):
            for c in range(wf.K):
                if c != j:
                    cons.append(z3.Implies(z3.And(bz(wf.nodes[j].present), wf.creator_is(j, c)), rank[c] < rank[j]))
        return cons

    def action(wf, w, s, aux):
        async def rep(*a, **k):
            return None

        aux["pre"] = wf.ctx.copy_state()
        drive(su.reset_interrupted_steps(w, rep))

    def post(wf, aux):
        pre_t = aux["pre"]
        ps, pn, pd = pre_t["step"].rows, pre_t["node"].rows, pre_t["dependency"].rows
        bad = []
        for j in range(wf.K):
            was = ps[j].vals["state"].v
            p = bz(ps[j].present)
            att = pn[j].vals["detached"].v == 0
            now = wf.steps[j].vals["state"].v
            bad.append(z3.And(p, z3.Or(now == StepState.RUNNING.value, now == StepState.CHECKING.value)))
            bad.append(z3.And(p, wf.steps[j].vals["_holding"].v != 0))
            bad.append(z3.And(p, att, now == StepState.FAILED.value))
            interrupted = z3.Or(was == StepState.RUNNING.value, was == StepState.CHECKING.value, was == StepState.FAILED.value)
            bad.append(z3.And(p, att, interrupted, z3.Or(now != StepState.PENDING.value, wf.steps[j].vals["deferred"].v != 0)))
            for f in range(wf.K):
                edge = z3.Or(*[z3.And(bz(d.present), d.vals["source"].v == j + 1, d.vals["sink"].v == f + 1) for d in pd])
                bad.append(z3.And(p, att, was == StepState.RUNNING.value, edge, bz(wf.files[f].present), wf.files[f].vals["state"].v == FileState.BUILT.value))
        clauses = wf.inv(acyclic_by_rank=False)
        bad += [z3.Not(c) for c, t in zip(clauses, wf.inv_tags) if t in C09.PROPERTY_TAGS]
        return bad

    def viol(res, wf0, m, content, which, aux):
        _replay_generic(res, "O05.1", "O5.1:reset_interrupted_steps", content, C09.CHECKER + BODY_RESET, "reset_interrupted_steps leaves an interrupted step behind")

    c = _explore(res, "reset_interrupted_steps", K, D, pre, action, post, on_violation=viol, lazy_enums=True, max_paths=2000, labels=["a", "b", "d/x"])
    res.twin("paths explored", "sat" if c["paths"] >= 2 else "unsat", 0.0)
    res.nontrivial = len(res.queries)
    return res


JUDGE_RECYCLE = '''        def JUDGE(S0, S1, margs):
            r = S1["step"][margs["m.step"]]
            bad = []
            if r[1] == 24: bad.append(("recycled step is FAILED", margs["m.step"]))
            if r[4]: bad.append(("recycled step is holding", margs["m.step"]))
            if S1["node"][margs["m.step"]][4]: bad.append(("recycled step is still detached", margs["m.step"]))
            return bad
'''


def o5_2(tier):
    FileState, StepState, Need = enums()

    def post(wf, aux):
        si = z3.Int("m.step")
        bad = [z3.BoolVal(aux.get("got") is None)]
        for j in range(wf.K):
            mine = si == j + 1
            bad.append(z3.And(mine, wf.steps[j].vals["state"].v == StepState.FAILED.value))
            bad.append(z3.And(mine, wf.steps[j].vals["_holding"].v != 0))
            bad.append(z3.And(mine, wf.nodes[j].vals["detached"].v != 0))
        return bad + C09.inv_post(wf, aux)

    return C09.explore_op(ObResult(), "O05.2", "try_recycle(Step)", tier, post, "a recycled step stays FAILED, holding or detached, or an invariant breaks", judge_src=JUDGE_RECYCLE, key="O5.2:try_recycle")


OBLIGATIONS = [
    Ob("O5.1", o5_1, "reset_interrupted_steps leaves no interrupted step behind and keeps the invariants", weight=4, timeout={"quick": 2400, "thorough": 7200}),
    Ob("O5.2", o5_2, "a recycled step is never FAILED or holding", weight=4, timeout={"quick": 2400, "thorough": 7200}),
]
