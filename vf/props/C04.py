"""C04 - nothing changed => nothing runs; edits rerun only their cone (mechanisms, E-SQL + E-XH).

Decided here: the cone is tight.  After update_file_hashes / mark_step_pending every step that left
SUCCEEDED has a reason inside the cone: it consumes a file whose state changed (or the edited file), or
it produces (created) the edited file; every file whose state changed is the edited file or an output
of a step that left SUCCEEDED/FAILED/PENDING-with-reason; no stored step hash is dropped and no file
hash other than the edited one changes.
"""

from __future__ import annotations

import z3

from vf.props import C09, C10
from vf.runner import Ob, ObResult
from vf.symsql.model import enums
from vf.symsql.values import bz

CLAIM = (
    "C04 (mechanisms): from any database state within the bound, recording an external change of ONE file "
    "(update_file_hashes, cause EXTERNAL) makes a step leave SUCCEEDED only if it consumes a file whose state "
    "changed or the edited file, or created the edited file; changes the state of a file only if it is the "
    "edited one or an output of a step that left SUCCEEDED; drops no stored step hash and touches no other "
    "file hash.  Selection of SUCCEEDED steps never happens (C10/O10.1); equal digests skip (C03)."
)
OUTSIDE = [
    "'rewrites no output' on disk and the 'Ran N job(s)' line of a real rebuild",
    "FileHash.refreshed returning self for an unchanged stat result: C13/O13.4",
    "the file-system scan behind rescan_nglobs (stub: arbitrary function of pattern and substitutions)",
]
ASSUMPTIONS = C10.ASSUMPTIONS

JUDGE_CONE = '''        def JUDGE(S0, S1, margs):
            bad = []
            edited = margs["m.file"]
            fchanged = {f for f, r in S1["file"].items() if f in S0["file"] and S0["file"][f][1] != r[1]}
            left = {s for s, r in S1["step"].items() if s in S0["step"] and S0["step"][s][1] == 23 and r[1] != 23}
            touched = {s for s, r in S1["step"].items() if s in S0["step"] and S0["step"][s][1] != r[1]}
            deps = [(a, b) for _, a, b, _ in S1["dep"]]
            for s in touched:
                reason = any(b == s and (a in fchanged or a == edited) for a, b in deps) or S0["node"][edited][3] == s
                if not reason: bad.append(("step changed state outside the cone", s))
            for f in fchanged:
                if f != edited and not any(a in touched and b == f for a, b in deps): bad.append(("file changed state outside the cone", f))
            for f, r in S1["file"].items():
                if f != edited and f in S0["file"] and r[2] != S0["file"][f][2] and r[1] == S0["file"][f][1]: bad.append(("hash of another file changed", f))
            for s, r in S1["step"].items():
                if s in S0["step"] and S0["step"][s][3] and not r[3]: bad.append(("stored step hash dropped", s))
            return bad
'''


def cone_post(wf, aux):
    FileState, StepState, Need = enums()
    pre = aux["pre"]
    pf, ps, pn = pre["file"].rows, pre["step"].rows, pre["node"].rows
    K = wf.K
    mf = z3.Int("m.file")
    bad = []
    fchanged = [z3.And(bz(pf[f].present), bz(wf.files[f].present), pf[f].vals["state"].v != wf.files[f].vals["state"].v) for f in range(K)]
    touched = [z3.And(bz(ps[s].present), bz(wf.steps[s].present), ps[s].vals["state"].v != wf.steps[s].vals["state"].v) for s in range(K)]
    for s in range(K):
        reason = z3.Or(
            *[z3.And(wf.dep_edge(f, s), z3.Or(fchanged[f], mf == f + 1)) for f in range(K)],
            *[z3.And(mf == f + 1, z3.Not(bz(pn[f].vals["creator"].n)), pn[f].vals["creator"].v == s + 1) for f in range(K)],
        )
        bad.append(z3.And(touched[s], z3.Not(reason)))
        bad.append(z3.And(bz(ps[s].present), bz(wf.steps[s].present), ps[s].vals["_has_hash"].v == 1, wf.steps[s].vals["_has_hash"].v == 0))
    for f in range(K):
        produced = z3.Or(*[z3.And(touched[s], wf.dep_edge(s, f)) for s in range(K)])
        bad.append(z3.And(fchanged[f], mf != f + 1, z3.Not(produced)))
        same_state = z3.And(bz(pf[f].present), bz(wf.files[f].present), pf[f].vals["state"].v == wf.files[f].vals["state"].v)
        ph, nh = pf[f].vals["hash"], wf.files[f].vals["hash"]
        hash_changed = z3.Or(bz(ph.n) != bz(nh.n), z3.And(z3.Not(bz(ph.n)), z3.Not(bz(nh.n)), ph.v != nh.v)) if not isinstance(nh.v, str) and not isinstance(ph.v, str) else z3.BoolVal(False)
        bad.append(z3.And(same_state, mf != f + 1, hash_changed))
    return bad


def o4_1(tier):
    return C09.explore_op(ObResult(), "O04", "update_file_hashes(EXTERNAL)", tier, cone_post, "something outside the cone of the edited file changed", judge_src=JUDGE_CONE, key="O4:cone")


def _xh(oid, cond, pre, what, t=600):
    def fn(tier):
        import stepup.core.executor as ex
        import stepup.core.startup as su

        from vf import xh
        from vf.runner import enc

        res = ObResult()
        res.bounds = pre
        res.encoded += [enc(ex.Executor._compute_inp_step_hash), enc(su.rescan_nglobs)]
        xh.run_condition(res, "C04", oid, "harness.c01", cond, pre, t if tier == "quick" else 3 * t, what=what)
        res.nontrivial = 1
        return res

    return fn


OBLIGATIONS = [
    Ob("O4.2", _xh("O4.2", "step_hash_env_is_command_env", "0 <= v_os < 3 and 0 <= v_infra < 3 and 0 <= dep < 2", "the environment value hashed is the value the command receives"), "tracked environment values in the step hash are those of the command's environment"),
    Ob("O4.3", _xh("O4.3", "rescan_nglobs_stable", "True", "an unchanged file system leaves every glob registration alone"), "glob rescan at startup: unchanged matches change nothing"),
    Ob("O4.1", o4_1, "the cone of an external change is tight", weight=3, timeout={"quick": 2400, "thorough": 7200})]
