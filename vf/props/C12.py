"""C12 - job, resource and hold limits are never exceeded (resource and hold clauses, E-SQL)."""

from __future__ import annotations

import json

import z3

from vf.props import C10
from vf.props.C10 import _explore, _replay_generic, _targets_from_model, coherence, make_scheduler
from vf.runner import Ob, ObResult, enc
from vf.symsql.executor import drive
from vf.symsql.model import Wf, enums
from vf.symsql.values import bz

CLAIM = (
    "C12 (resources and hold): from any database state in which the RUNNING steps together hold no "
    "more units of any resource than are available (and none requires an undefined resource), one "
    "real Scheduler.pop_next_job() keeps that true, and a step is moved to RUNNING (command "
    "execution) only without a stored hash; after Step.hold() on a running step, no descendant is "
    "dispatched to RUNNING until the matching release."
)
OUTSIDE = [
    "the job limit: len(running_tasks) < njob in an asyncio loop, and run_promoted_hash_jobs (outside the budget by design): not state, not encoded",
    "graphs larger than the capacity bound",
]
ASSUMPTIONS = C10.ASSUMPTIONS + ["pre-states have coherent caches and no pending flags (the recomputations are C10/O10.2)", "Scheduler._derive_job is stubbed (it only reads): its checks are C03/O3.1"]


class _Job:
    name = "job"

    def __init__(self, step):
        self.step = step


def _stub_derive_job(s):
    """Scheduler._derive_job packages the inputs of the selected step into a Job (its sanity checks
    are the subject of C03/O3.1); it does not touch the database state that these obligations are
    about, and enumerating the input rows only multiplies the paths."""
    object.__setattr__(s, "_derive_job", lambda step: _Job(step)) if False else None
    import types

    type(s)._derive_job_saved = getattr(type(s), "_derive_job_saved", type(s)._derive_job)
    s.__class__ = type("SchedulerNoDerive", (type(s),), {"_derive_job": lambda self, step: _Job(step), "__slots__": ()})


def resource_invariant(wf: Wf):
    """For every defined or required resource: units held by RUNNING steps <= available; a RUNNING
    step never requires an undefined resource."""
    _, StepState, _ = enums()
    req = wf.t("step_resource").rows
    avail = wf.t("available_resource").rows
    pool = wf.ctx.pool
    names = [pool.atom("p"), pool.atom("q")]
    cons = []
    for nm in names:
        used = z3.Sum([z3.If(z3.And(bz(r.present), r.vals["name"].v == nm, z3.Or(*[z3.And(r.vals["node"].v == k + 1, bz(wf.steps[k].present), wf.steps[k].vals["state"].v == StepState.RUNNING.value) for k in range(wf.K)])), r.vals["units"].v, 0) for r in req])
        defined = z3.Or(*[z3.And(bz(a.present), a.vals["name"].v == nm) for a in avail])
        total = z3.Sum([z3.If(z3.And(bz(a.present), a.vals["name"].v == nm), a.vals["units"].v, 0) for a in avail])
        cons.append(z3.Implies(defined, used <= total))
        cons.append(z3.Implies(z3.Not(defined), used == 0))
    return cons


BODY_POP = '''        job = await sched.pop_next_job()
        async with db:
            rows = db.execute("""SELECT r.name, SUM(r.units), (SELECT units FROM available_resource a WHERE a.name = r.name)
                FROM step_resource r JOIN step s ON s.node = r.node WHERE s.state = 22 GROUP BY r.name""").fetchall()
            st = None if job is None else db.execute("SELECT state, _has_hash FROM step WHERE node = ?", (job.step.i,)).fetchone()
        print("job:", job, "state/has_hash:", st, "units held by RUNNING steps (name, used, available):", rows)
        bad = [r for r in rows if r[2] is None or r[1] > r[2]]
        if st is not None and (st[0] == 22) != (st[1] == 0):
            bad.append(("state", st))
        return 1 if bad else 0
'''


def o12_1(tier):
    import stepup.core.scheduler as sch

    res = ObResult()
    K, D = (4, 1) if tier == "quick" else (4, 2)
    res.bounds = f"{K} node slots, {D} dependency edges, 2 resource requirements, 2 available resources (units 0..3), resource names from {{p, q}}"
    res.encoded += [enc(sch.Scheduler.pop_next_job), enc(sch.Scheduler._get_next_step), enc(sch.Scheduler._derive_job), enc(sch.SELECT_NEXT_STEP, "scheduler.SELECT_NEXT_STEP"), enc(sch.RESOURCE_UNAVAILABLE, "scheduler.RESOURCE_UNAVAILABLE")]
    _, StepState, Need = enums()

    def pre(wf):
        cons = coherence(wf) + resource_invariant(wf)
        for j in range(wf.K):
            s = wf.steps[j]
            cons.append(z3.Implies(bz(s.present), z3.And(s.vals["_check_safe"].v == 0, s.vals["_check_after"].v == 0, s.vals["_check_ready"].v == 0)))
        return cons

    def action(wf, w, s, aux):
        _stub_derive_job(s)
        aux["job"] = drive(s.pop_next_job())

    def post(wf, aux):
        bad = [z3.Not(c) for c in resource_invariant(wf)]
        job = aux.get("job")
        if job is not None:
            i = job.step.i
            iv = i.term if hasattr(i, "term") and getattr(i, "_val", None) is None else int(i)
            for j in range(wf.K):
                s = wf.steps[j]
                running = s.vals["state"].v == StepState.RUNNING.value
                checking = s.vals["state"].v == StepState.CHECKING.value
                bad.append(z3.And(iv == j + 1, z3.Not(z3.Or(z3.And(running, z3.Not(wf.def_has_hash(j))), z3.And(checking, wf.def_has_hash(j))))))
        return bad

    def viol(res, wf0, m, content, which, aux):
        _replay_generic(res, "O12.1", "O12.1:resources", content, BODY_POP, "pop_next_job over-commits a resource or runs a command for a step with a stored hash", targets=_targets_from_model(wf0, m))

    c = _explore(res, "pop_next_job", K, D, pre, action, post, on_violation=viol, max_paths=3000, labels=["a", "b"])
    res.twin("a dispatch happens on some path", "sat" if c["paths"] >= 2 else "unsat", 0.0)
    res.nontrivial = len(res.queries)
    return res


BODY_HOLD = '''        from stepup.core.step import Step
        async with db:
            holder = Step(wf, holder_i, db.execute("SELECT label FROM node WHERE i = ?", (holder_i,)).fetchone()[0])
            holder.hold()
        job = await sched.pop_next_job()
        async with db:
            info = None
            if job is not None:
                info = db.execute("SELECT state FROM step WHERE node = ?", (job.step.i,)).fetchone()[0]
                chain, c = [], job.step.i
                while c is not None and c != 1 and len(chain) < 10:
                    c = db.execute("SELECT creator FROM node WHERE i = ?", (c,)).fetchone()[0]
                    chain.append(c)
        print("holder:", holder_i, "job:", job, "new state:", info)
        return 1 if (job is not None and holder_i in chain and info == 22) else 0
'''


def o12_2(tier):
    import stepup.core.step as stp

    res = ObResult()
    K, D = (4, 1) if tier == "quick" else (4, 2)
    res.bounds = f"{K} node slots, {D} dependency edges; a RUNNING step calls hold(); then one pop_next_job()"
    res.encoded += [enc(stp.Step.hold), enc(stp.Step.release)]
    _, StepState, Need = enums()

    def pre(wf):
        cons = coherence(wf)
        for j in range(wf.K):
            s = wf.steps[j]
            cons.append(z3.Implies(bz(s.present), z3.And(s.vals["_check_safe"].v == 0, s.vals["_check_after"].v == 0, s.vals["_check_ready"].v == 0)))
        rank = [z3.Int(f"crk[{j}]") for j in range(wf.K)]
        for j in range(wf.K):
            for c in range(wf.K):
                if c != j:
                    cons.append(z3.Implies(z3.And(bz(wf.nodes[j].present), wf.creator_is(j, c)), rank[c] < rank[j]))
        return cons

    def action(wf, w, s, aux):
        from stepup.core.step import Step

        holder, hi = C10._node(Step, w, wf, w.db.run, "m.step", "step")
        w.db.run.assume(z3.Or(*[z3.And(hi == j + 1, wf.steps[j].vals["state"].v == StepState.RUNNING.value) for j in range(wf.K)]))
        aux["holder"] = hi
        holder.hold()
        _stub_derive_job(s)
        aux["job"] = drive(s.pop_next_job())

    def post(wf, aux):
        job = aux.get("job")
        if job is None:
            return []
        hi = aux["holder"]
        i = job.step.i
        iv = i.term if hasattr(i, "term") and getattr(i, "_val", None) is None else int(i)
        # D[j]: step j is a proper descendant of the holder (creator chain)
        Dd = [z3.BoolVal(False) for _ in range(wf.K)]
        for _ in range(wf.K):
            Dd = [z3.Or(Dd[j], *[z3.And(wf.creator_is(j, c), z3.Or(hi == c + 1, Dd[c])) for c in range(wf.K) if c != j]) for j in range(wf.K)]
        bad = []
        for j in range(wf.K):
            bad.append(z3.And(iv == j + 1, Dd[j], wf.steps[j].vals["state"].v == StepState.RUNNING.value))
        return bad

    def viol(res, wf0, m, content, which, aux):
        hi = m.eval(z3.Int("m.step"), model_completion=True).as_long()
        _replay_generic(res, "O12.2", "O12.2:hold", content, f"        holder_i = {hi}\n" + BODY_HOLD, "a step below a holding step starts its command", targets=_targets_from_model(wf0, m))

    c = _explore(res, "hold + pop_next_job", K, D, pre, action, post, on_violation=viol, max_paths=3000, labels=["a", "b"])
    res.twin("paths explored", "sat" if c["paths"] >= 2 else "unsat", 0.0)
    res.nontrivial = len(res.queries)
    return res


JUDGE_RES = '''        def JUDGE(S0, S1, margs):
            got = sorted((n, u) for s, n, u in S1["res"] if s == margs["m.step"])
            want = [("p", margs["m.flag"])] if margs["m.flag"] else []
            return [] if got == want else [("recycled step keeps other resource requirements than declared", got, want)]
'''


def o12_3(tier):
    import z3

    from vf.props import C09
    from vf.runner import ObResult
    from vf.symsql.values import bz

    def post(wf, aux):
        si = z3.Int("m.step")
        want = aux.get("resources") or {}
        pool = wf.ctx.pool
        bad = []
        rows = wf.t("step_resource").rows
        for j in range(wf.K):
            mine = [z3.And(bz(r.present), r.vals["node"].v == j + 1) for r in rows]
            if not want:
                bad.append(z3.And(si == j + 1, z3.Or(*mine)))
            else:
                ok = [z3.And(m, r.vals["name"].v == pool.atom("p"), r.vals["units"].v == want["p"]) for m, r in zip(mine, rows)]
                bad.append(z3.And(si == j + 1, z3.Not(z3.Or(*ok))))
                bad.append(z3.And(si == j + 1, z3.Or(*[z3.And(m, z3.Not(o)) for m, o in zip(mine, ok)])))
        return bad

    return C09.explore_op(ObResult(), "O12.3", "try_recycle(Step, resources)", tier, post, "a recycled step keeps resource requirements other than the declared ones", judge_src=JUDGE_RES, key="O12.3:recycle-resources")


OBLIGATIONS = [
    Ob("O12.1", o12_1, "resources: one dispatch keeps 'units held by RUNNING steps <= available'; RUNNING only without stored hash", weight=4, timeout={"quick": 2400, "thorough": 7200}),
    Ob("O12.2", o12_2, "hold: no descendant of a holding step starts its command", weight=4, timeout={"quick": 2400, "thorough": 7200}),
]
OBLIGATIONS += [
    Ob("O12.2h", C10.mk_o10_3("Step.hold"), "hold() flags what it makes stale (C10/O10.3)", weight=3, timeout={"quick": 2400, "thorough": 10800}),
    Ob("O12.2r", C10.mk_o10_3("Step.release"), "release() flags what it makes stale (C10/O10.3)", weight=3, timeout={"quick": 2400, "thorough": 10800}),
    Ob("O12.3", o12_3, "a fully recycled step requires exactly the declared resources", weight=3, timeout={"quick": 2400, "thorough": 7200}),
]
