"""C03 - a step only succeeds on inputs that were final while it ran."""

from __future__ import annotations

from vf import xh
from vf.runner import Ob, ObResult, enc

CLAIM = (
    "C03 (decision logic and freshness bookkeeping): execute_job/_classify_execution record success "
    "exactly when no input changed, nothing is unavailable/unfresh and the command succeeded; a "
    "changed input fails the step and drains; the start/stop time bookkeeping never forgets a "
    "producer's completion that a still-running consumer needs (inductive step over an arbitrary "
    "valid state with a symbolic clock)."
)
OUTSIDE = [
    "the race windows between an RPC and a file-system write (real time)",
    "hash computation and command execution themselves (stubs returning arbitrary results)",
    "ties: a producer completing at exactly the instant a consumer starts",
]
ASSUMPTIONS = [
    "time.monotonic_ns is non-decreasing (stubbed by an arbitrary instant not before any recorded one)",
    "stubs: _new_run, _run_command, _compute_full_step_hash, _report_run, reporter, database context",
]

PRE_CLS = "0 <= nunavail <= 2 and 0 <= nunfresh <= 2 and 0 <= nchanged <= 2"
TIMES = " and ".join(f"0 <= {v} <= now" for v in ("s0", "s1", "s2", "s3", "t0", "t1", "t2", "t3"))
PRE_FRESH = TIMES + " and 0 <= ev_step < 4 and 0 <= ev_kind <= 2"


def _mk(oid, cond, pre, what, tq=240, tt=1200, encoded=()):
    def fn(tier):
        import stepup.core.executor as ex
        import stepup.core.scheduler as sch

        res = ObResult()
        res.bounds = pre
        res.encoded += [enc(ex.Executor.execute_job), enc(ex.Executor._classify_execution), enc(ex.Executor.try_skip_job), enc(sch.Scheduler.record_run_stopped), enc(sch.Scheduler.ran_concurrently)]
        xh.run_condition(res, "C03", oid, "harness.c03", cond, pre, tq if tier == "quick" else tt, what=what)
        res.nontrivial = 1
        return res

    return fn


def o3_4(tier):
    """Inductive step of the freshness bookkeeping with a symbolic clock (z3, fork executor).

    State: N steps; start_times / stop_times are symbolic dicts over the N step ids; ghost: step p
    `done[p]` completed successfully at instant `tdone[p]`.  INV: for every running consumer c and
    every producer p != c with done[p] and tdone[p] > start[c]: stop_times[p] is present and equals
    tdone[p].  Pre: INV, all instants <= now, stop_times only holds true completions.  One event
    (start / successful stop / failed stop of any step, executed by the REAL record_run_started /
    record_run_stopped on the symbolic dicts); post: INV."""
    import z3

    import stepup.core.scheduler as sch
    from vf.symdict import SymDict, SymInt, sym_min
    from vf.symsql.executor import Explorer

    res = ObResult()
    N = 4 if tier == "quick" else 5
    res.bounds = f"{N} steps, arbitrary instants (unbounded integers), one event from an arbitrary state satisfying INV"
    res.encoded += [enc(sch.Scheduler.record_run_started), enc(sch.Scheduler.record_run_stopped)]
    keys = list(range(N))
    now = z3.Int("now")
    reach = {"n": 0}

    def inv(st, sp, done, tdone):
        conj = []
        for c in keys:
            for p in keys:
                if p == c:
                    continue
                need = z3.And(st.present[c], done[p], tdone[p] > st.value[c])
                conj.append(z3.Implies(need, z3.And(sp.present[p], sp.value[p] == tdone[p])))
        return z3.And(*conj)

    for ev_kind in (0, 1, 2):
        ev_step = 0  # steps are interchangeable: the state is arbitrary, so fix the acting step

        def body(run, ev_kind=ev_kind):
            SymInt.run = run
            st, sp = SymDict(keys, "start"), SymDict(keys, "stop")
            done = {k: z3.Bool(f"done[{k}]") for k in keys}
            tdone = {k: z3.Int(f"tdone[{k}]") for k in keys}
            for k in keys:
                run.assume(z3.Implies(st.present[k], z3.And(st.value[k] >= 0, st.value[k] <= now)))
                run.assume(z3.Implies(done[k], z3.And(tdone[k] >= 0, tdone[k] <= now)))
                run.assume(z3.Implies(sp.present[k], z3.And(done[k], sp.value[k] == tdone[k])))
            run.assume(inv(st, sp, done, tdone))
            if ev_kind == 0:
                run.assume(z3.Not(st.present[ev_step]))
            else:
                run.assume(st.present[ev_step])
            s = object.__new__(sch.Scheduler)
            object.__setattr__(s, "start_times", st)
            object.__setattr__(s, "stop_times", sp)
            object.__setattr__(s, "run_counter", 0)

            def thunk():
                saved = (sch.time, sch.__dict__.get("min"))
                sch.time = type("T", (), {"monotonic_ns": staticmethod(lambda: SymInt(now))})
                sch.min = sym_min
                try:
                    if ev_kind == 0:
                        s.record_run_started(ev_step)
                    else:
                        s.record_run_stopped(ev_step, succeeded=(ev_kind == 1))
                finally:
                    sch.time = saved[0]
                    if saved[1] is None:
                        del sch.min
                    else:
                        sch.min = saved[1]
                d2, t2 = dict(done), dict(tdone)
                if ev_kind == 1:
                    d2[ev_step] = z3.BoolVal(True)
                    t2[ev_step] = now
                return s.start_times, s.stop_times, d2, t2

            return None, thunk

        def on_path(pr, ev_kind=ev_kind):
            if pr.outcome == "raise":
                v, m, dt = pr.run.query()
                res.q(f"event kind {ev_kind}: no exception ({type(pr.value).__name__})", "sat" if v == "sat" else v, dt)
                if v == "sat":
                    res.inconclusive.append(f"the real code raised {pr.value!r} on a feasible path")
                return
            st2, sp2, d2, t2 = pr.value
            v, m, dt = pr.run.query(z3.Not(inv(st2, sp2, d2, t2)))
            res.q(f"event kind {ev_kind} (0 start, 1 stop ok, 2 stop failed): INV preserved on path {reach['n']}", v, dt)
            reach["n"] += 1
            if v == "sat":
                _fresh_violation(res, m, keys, ev_kind, now)

        ex = Explorer(max_paths=3000, timeout_ms=60000)
        ex.explore(body, on_path)
    res.twin("paths of the real bookkeeping code were explored", "sat" if reach["n"] > 3 else "unsat", 0.0)
    res.nontrivial = len(res.queries)
    return res


REPLAY_FRESH = '''
import stepup.core.scheduler as sch
state = {state!r}
s = object.__new__(sch.Scheduler)
object.__setattr__(s, "start_times", dict(state["start"])); object.__setattr__(s, "stop_times", dict(state["stop"])); object.__setattr__(s, "run_counter", 0)
sch.time = type("T", (), {{"monotonic_ns": staticmethod(lambda: state["now"])}})
done = dict(state["done"])
if state["kind"] == 0:
    s.record_run_started(0)
else:
    s.record_run_stopped(0, succeeded=state["kind"] == 1)
    if state["kind"] == 1:
        done[0] = state["now"]
bad = []
for c, tc in s.start_times.items():
    for p, tp in done.items():
        if p != c and tp > tc and not s.ran_concurrently(p, c):
            bad.append((p, c))
print("state", state, "after: start", s.start_times, "stop", s.stop_times, "forgotten (producer, consumer):", bad)
sys.exit(1 if bad else 0)
'''


def _fresh_violation(res, m, keys, ev_kind, now):
    import z3

    from vf.runner import Violation, run_replay, write_replay

    def val(name):
        return m.eval(z3.Int(name), model_completion=True).as_long()

    def has(name):
        return z3.is_true(m.eval(z3.Bool(name), model_completion=True))

    state = {
        "now": m.eval(now, model_completion=True).as_long(),
        "kind": ev_kind,
        "start": {k: val(f"start.val[{k}]") for k in keys if has(f"start.has[{k}]")},
        "stop": {k: val(f"stop.val[{k}]") for k in keys if has(f"stop.has[{k}]")},
        "done": {k: val(f"tdone[{k}]") for k in keys if has(f"done[{k}]")},
    }
    rp = write_replay("C03", "O3.4", f"fresh {state}", REPLAY_FRESH.format(state=state))
    ok, out = run_replay(rp)
    if ok:
        res.violations.append(Violation("O3.4:forgotten-completion", f"a completion that a running consumer needs is forgotten: {out.strip().splitlines()[-1][:300]}", state, rp))
    else:
        res.inconclusive.append(f"freshness model does not reproduce: {state} {out[-200:]}")


OBLIGATIONS = [
    Ob("O3.2a", _mk("O3.2a", "classify_only", PRE_CLS + "", "_classify_execution: success iff nothing changed/unavailable/unfresh and the command succeeded"), "_classify_execution"),
    Ob("O3.2b", _mk("O3.2b", "execute_classification", PRE_CLS, "execute_job: recorded SUCCEEDED iff inputs final; changed input fails and drains regardless of keep_going"), "execute_job tail", weight=2),
    Ob("O3.2c", _mk("O3.2c", "skip_soundness", "True", "try_skip_job: reuse only on equal inp and out digests; never runs a command"), "try_skip_job (also C01/O1.2, C04/O4.3)"),
    Ob("O3.4", o3_4, "freshness bookkeeping never forgets a needed completion (inductive step, symbolic clock)", weight=5, timeout={"quick": 1500, "thorough": 5400}),
    Ob("O3.4b", _mk("O3.4b", "ran_concurrently_def", "0 <= a <= 3 and 0 <= b <= 3 and 0 <= ta and 0 <= tb", "ran_concurrently(p, c) iff both instants are recorded and start(c) <= stop(p)"), "ran_concurrently definition"),
]
