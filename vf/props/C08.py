"""C08 - every path has one owner and conflicts are rejected in either order (E-SQL part)."""

from __future__ import annotations

import z3

from vf.props import C09, C10
from vf.props.C10 import _explore, _replay_generic
from vf.runner import Ob, ObResult, enc
from vf.symsql.model import enums
from vf.symsql.values import V, bz

CLAIM = (
    "C08 (claims on one path): from any database state within the bound, _check_declaration accepts a "
    "declaration as new exactly when no attached file node has the path, reports 'already declared' exactly "
    "when the attached node has the same role and the same creator, and rejects with GraphError otherwise; "
    "for every pair of declarations of one path (static / output / volatile output, by the same or by two "
    "different creators) made through the real declare_static_files / amend_step, a rejection happens in "
    "the order D1;D2 if and only if it happens in the order D2;D1, and at no point two attached file nodes "
    "or two roles exist for the path; define_step rejects an output or volatile output that an attached "
    "step's registered pattern matches, whether the definition is fresh or recycles a detached step (pools of "
    "patterns and paths, harness/c08.py).  The string side (static trees own what is beneath them, for all "
    "spellings) is C18; the text of the messages is C02."
)
OUTSIDE = [
    "static trees (no 'st' node in the bounded state) and the matching relation of glob patterns (one literal pattern is pinned in O8.3): the string relations are decided by C18 and C17",
    "sequences of more than two declarations (covered through the unique index on (kind, label) only)",
    "define_step as a whole (INSERT of a new step with its command label)",
]
ASSUMPTIONS = C10.ASSUMPTIONS
LABELS = ["a", "b"]

BODY_CHECK = '''        from stepup.core.enums import FileRole
        from stepup.core.exceptions import GraphError
        async with db:
            kind, lab = db.execute("SELECT kind, label FROM node WHERE i = ?", (margs["m.creator"],)).fetchone()
            creator = wf.node_from_row(margs["m.creator"], kind, lab)
            role = FileRole(margs["m.role"])
            row = db.execute("SELECT file.state, node.creator FROM node JOIN file ON file.node = node.i WHERE node.kind = 'file' AND NOT node.detached AND node.label = ?", (LABELS[margs["m.label"]],)).fetchone()
            try:
                got = wf._check_declaration(creator, LABELS[margs["m.label"]], role)
            except GraphError as exc:
                got = "rejected"
        from stepup.core.enums import FILE_ROLE_BY_STATE, FileState
        if row is None: want = True
        elif FILE_ROLE_BY_STATE[FileState(row[0])] == role and row[1] == margs["m.creator"]: want = False
        else: want = "rejected"
        print("claim row (state, creator):", row, "declaration:", margs, "->", got, "expected", want)
        return 0 if got == want else 1
'''

BODY_PAIR = '''        from stepup.core.exceptions import GraphError, UsageError
        from stepup.core.enums import FileState
        import sqlite3
        def declare(which):
            kind, lab = db.execute("SELECT kind, label FROM node WHERE i = ?", (margs[f"m.c{which}"],)).fetchone()
            creator = wf.node_from_row(margs[f"m.c{which}"], kind, lab)
            r = margs[f"m.r{which}"]
            path = LABELS[margs["m.label"]]
            db.execute("SAVEPOINT decl")
            try:
                if r == 0: wf.declare_static_files(creator, [path])
                elif r == 1: wf.amend_step(creator, out_paths=[path], ran_concurrently=lambda a, b: False)
                else: wf.amend_step(creator, vol_paths=[path], ran_concurrently=lambda a, b: False)
                db.execute("RELEASE decl")
                return "accepted"
            except UsageError as exc:
                db.execute("ROLLBACK TO decl"); db.execute("RELEASE decl")
                return "rejected"
            except Exception as exc:
                print("internal error:", type(exc).__name__, exc)
                db.execute("ROLLBACK TO decl"); db.execute("RELEASE decl")
                return "internal error"
        def claims():
            return db.execute("SELECT count(*) FROM node WHERE kind = 'file' AND NOT detached AND label = ?", (LABELS[margs["m.label"]],)).fetchone()[0]
        res = {}
        for order in ((1, 2), (2, 1)):
            async with db:
                db.execute("SAVEPOINT whole")
                out = [declare(order[0])]
                n1 = claims()
                out.append(declare(order[1]))
                n2 = claims()
                db.execute("ROLLBACK TO whole"); db.execute("RELEASE whole")
            res[order] = (out, n1, n2)
        print("declarations:", margs, "results per order:", res)
        rej = {o: ("rejected" in r[0]) for o, r in res.items()}
        many = any(n > 1 for r in res.values() for n in r[1:])
        internal = any("internal error" in r[0] for r in res.values())
        return 1 if (rej[(1, 2)] != rej[(2, 1)] or many or internal) else 0
'''


def _forest(wf):
    rank = [z3.Int(f"crk[{j}]") for j in range(wf.K)]
    cons = []
    for j in range(wf.K):
        for c in range(wf.K):
            if c != j:
                cons.append(z3.Implies(z3.And(bz(wf.nodes[j].present), wf.creator_is(j, c)), rank[c] < rank[j]))
    return cons


def _creator(w, wf, run, name):
    """An attached step or the root as the declaring node."""
    from stepup.core.step import Step

    from vf.symsql.executor import LazyInt

    # (the root's own declarations -- plan.py -- are StepUp-internal: a collision there is reported
    # as ConsistencyError by design; outside)
    ci = z3.Int(name)
    run.assume(z3.Or(*[z3.And(ci == j + 1, wf.is_kind(j, "step"), wf.nodes[j].vals["detached"].v == 0) for j in range(1, wf.K)]))
    for j in range(wf.K):
        run.assume(z3.Not(wf.is_kind(j, "st")))  # static trees: C18
    return Step(w, LazyInt(run, ci, name), "lbl"), ci


def o8_1(tier):
    import stepup.core.workflow as wfm
    from stepup.core.enums import FILE_ROLE_BY_STATE, FileRole
    from stepup.core.exceptions import GraphError

    res = ObResult()
    K, D = (4, 2) if tier == "quick" else (4, 3)
    res.bounds = f"{K} node slots, {D} dependency edges, labels {LABELS}; declaring node = root or any attached step; role symbolic"
    res.encoded += [enc(wfm.Workflow._check_declaration), enc(wfm.Workflow._existing_claim)]
    FileState, StepState, Need = enums()

    def action(wf, w, s, aux):
        run = w.db.run
        c, ci = _creator(w, wf, run, "m.creator")
        r = z3.Int("m.role")
        roles = list(FileRole)
        run.assume(z3.Or(*[r == int(x.value) for x in roles]))
        role = next(x for x in roles if run.decide_bool(r == int(x.value)))
        k = z3.Int("m.label")
        run.assume(z3.And(k >= 0, k < len(wf.labels)))
        label = next(lab for idx, lab in enumerate(wf.labels) if run.decide_bool(k == idx))
        aux.update(ci=ci, role=role, label=label, pre=wf.ctx.copy_state())
        try:
            aux["got"] = w._check_declaration(c, label, role)
        except GraphError:
            aux["got"] = "rejected"

    def post(wf, aux):
        pool = wf.ctx.pool
        lab = pool.atom(aux["label"])
        role = aux["role"]
        claimed, same = [], []
        for j in range(wf.K):
            att = z3.And(wf.is_kind(j, "file"), bz(wf.files[j].present), wf.nodes[j].vals["detached"].v == 0, wf.nodes[j].vals["label"].v == lab)
            claimed.append(att)
            in_role = z3.Or(*[wf.files[j].vals["state"].v == st.value for st, ro in FILE_ROLE_BY_STATE.items() if ro == role])
            mine = z3.And(z3.Not(bz(wf.nodes[j].vals["creator"].n)), wf.nodes[j].vals["creator"].v == aux["ci"])
            same.append(z3.And(att, in_role, mine))
        any_claim, any_same = z3.Or(*claimed), z3.Or(*same)
        got = aux["got"]
        if got is True:
            return [any_claim]
        if got is False:
            return [z3.Not(any_same)]
        return [z3.Not(any_claim), any_same]

    def viol(res, wf0, m, content, which, aux):
        margs = {v: m.eval(z3.Int(v), model_completion=True).as_long() for v in ("m.creator", "m.role", "m.label")}
        body = f"        margs = {margs!r}\n        LABELS = {LABELS!r}\n" + BODY_CHECK
        _replay_generic(res, "O08.1", "O8.1:_check_declaration", content, body, "_check_declaration disagrees with the claim on the path")

    c = _explore(res, "_check_declaration", K, D, _forest, action, post, on_violation=viol, lazy_enums=True, max_paths=2500, labels=LABELS)
    res.twin("paths explored", "sat" if c["paths"] >= 3 else "unsat", 0.0)
    res.nontrivial = len(res.queries)
    return res


def o8_2(tier):
    import stepup.core.workflow as wfm
    from stepup.core.exceptions import UsageError

    res = ObResult()
    K, D = (4, 1) if tier == "quick" else (4, 2)
    res.bounds = f"{K} node slots, {D} dependency edges, labels {LABELS}; two declarations of ONE path: role in (static, output, volatile), creators = any attached steps (the same or different; RUNNING when they amend) or the root for static; both orders from the same state"
    res.encoded += [enc(wfm.Workflow.declare_static_files), enc(wfm.Workflow.amend_step), enc(wfm.Workflow._declare_file), enc(wfm.Workflow._check_declaration), enc(wfm.Workflow._existing_claim)]
    FileState, StepState, Need = enums()

    def action(wf, w, s, aux):
        import stepup.core.hash as hm

        run = w.db.run
        # stubs as in C09 (no static trees, no watcher queue)
        for j in range(wf.K):
            run.assume(z3.Not(wf.is_kind(j, "st")))
        cls = type(w)
        cls._find_owning_static_tree = lambda self, path: None
        cls.watch_dir = lambda self, path: None
        hm.FileHash.from_json = classmethod(lambda cls, txt: None)
        import stepup.core.workflow as wfm

        # the text of the rejection is C02's subject; building it reads labels and kinds of both creators
        wfm._claim_collision_message = lambda path, claim, decl: "collision"
        k = z3.Int("m.label")
        run.assume(k == 0)  # labels are interchangeable here (no targets, globs or trees in the state)
        label = wf.labels[0]
        decls = []
        for which in (1, 2):
            c, ci = _creator(w, wf, run, f"m.c{which}")
            r = z3.Int(f"m.r{which}")
            run.assume(z3.And(r >= 0, r <= 2))
            role = next(x for x in (0, 1, 2) if run.decide_bool(r == x))
            if role != 0:
                for j in range(wf.K):
                    run.assume(z3.Implies(ci == j + 1, wf.steps[j].vals["state"].v == StepState.RUNNING.value))
            decls.append((c, role))

        def declare(c, role):
            snap = wf.ctx.copy_state()
            try:
                if role == 0:
                    w.declare_static_files(c, [label])
                elif role == 1:
                    w.amend_step(c, out_paths=[label], ran_concurrently=lambda a, b: False)
                else:
                    w.amend_step(c, vol_paths=[label], ran_concurrently=lambda a, b: False)
                return False
            except UsageError:
                wf.ctx.tables = snap  # the transaction of a rejected request is rolled back
                return True

        def claims():
            lab = wf.ctx.pool.atom(label)
            return z3.Sum([z3.If(z3.And(wf.is_kind(j, "file"), wf.nodes[j].vals["detached"].v == 0, wf.nodes[j].vals["label"].v == lab), 1, 0) for j in range(wf.K)])

        start = wf.ctx.copy_state()
        out = {}
        counts = []
        for order in ((0, 1), (1, 0)):
            wf.ctx.tables = start
            start = wf.ctx.copy_state()
            rej = []
            for idx in order:
                rej.append(declare(*decls[idx]))
                counts.append(claims())
            out[order] = any(rej)
        aux.update(out=out, counts=counts)

    def post(wf, aux):
        bad = [z3.BoolVal(aux["out"][(0, 1)] != aux["out"][(1, 0)])]
        bad += [c > 1 for c in aux["counts"]]
        return bad

    def viol(res, wf0, m, content, which, aux):
        margs = {v: m.eval(z3.Int(v), model_completion=True).as_long() for v in ("m.c1", "m.c2", "m.r1", "m.r2", "m.label")}
        body = f"        margs = {margs!r}\n        LABELS = {LABELS!r}\n" + BODY_PAIR
        _replay_generic(res, "O08.2", "O8.2:pair", content, body, "two declarations of one path are accepted in one order and rejected in the other")

    c = _explore(res, "declaration pairs", K, D, _forest, action, post, on_violation=viol, lazy_enums=True, internal_error_violates=True, max_paths=4000, labels=LABELS, allow_integrity=False)
    res.twin("paths explored", "sat" if c["paths"] >= 3 else "unsat", 0.0)
    res.nontrivial = len(res.queries)
    return res


BODY_GLOB = '''        from stepup.core.exceptions import UsageError
        from stepup.core.enums import FILE_ROLE_BY_STATE, FileState, FileRole
        async with db:
            kind, lab = db.execute("SELECT kind, label FROM node WHERE i = ?", (margs["m.c1"],)).fetchone()
            step = wf.node_from_row(margs["m.c1"], kind, lab)
            role = FileRole.VOLATILE if margs["m.r1"] == 2 else FileRole.OUTPUT
            row = db.execute("SELECT file.state, node.creator FROM node JOIN file ON file.node = node.i WHERE node.kind = 'file' AND NOT node.detached AND node.label = 'a'").fetchone()
            mine = row is not None and FILE_ROLE_BY_STATE[FileState(row[0])] == role and row[1] == margs["m.c1"]
            try:
                wf.amend_step(step, **{("vol_paths" if margs["m.r1"] == 2 else "out_paths"): ["a"]}, ran_concurrently=lambda a, b: False)
                accepted = True
            except UsageError as exc:
                print("rejected:", exc); accepted = False
        print("glob 'a' registered by node 2; declaration", margs, "accepted:", accepted, "already declared by the same step:", mine)
        return 1 if (accepted and not mine) else 0
'''


def o8_3(tier):
    import stepup.core.workflow as wfm
    from stepup.core.enums import FILE_ROLE_BY_STATE, FileRole
    from stepup.core.exceptions import UsageError

    res = ObResult()
    K, D = (4, 1) if tier == "quick" else (4, 2)
    res.bounds = f"{K} node slots, {D} dependency edges; ONE registered glob (pattern and stored regex 'a', registered by the attached step in slot 2); a RUNNING attached step amends 'a' as an output or a volatile output"
    res.encoded += [enc(wfm.Workflow.amend_step), enc(wfm.Workflow._raise_if_glob_match), enc(wfm.Workflow._check_declaration)]
    FileState, StepState, Need = enums()
    fixed = {"nglob": [{"i": 1, "node": 2, "pattern": "a", "regex": "a", "data": "{}"}]}

    def pre(wf):
        return _forest(wf) + [wf.is_kind(1, "step"), wf.nodes[1].vals["detached"].v == 0]

    def action(wf, w, s, aux):
        import stepup.core.hash as hm

        run = w.db.run
        cls = type(w)
        cls._find_owning_static_tree = lambda self, path: None
        cls.watch_dir = lambda self, path: None
        hm.FileHash.from_json = classmethod(lambda cls, txt: None)
        c, ci = _creator(w, wf, run, "m.c1")
        for j in range(wf.K):
            run.assume(z3.Implies(ci == j + 1, wf.steps[j].vals["state"].v == StepState.RUNNING.value))
        r = z3.Int("m.r1")
        run.assume(z3.Or(r == 1, r == 2))
        vol = run.decide_bool(r == 2)
        role = FileRole.VOLATILE if vol else FileRole.OUTPUT
        lab = wf.ctx.pool.atom("a")
        same = []
        for j in range(wf.K):
            att = z3.And(wf.is_kind(j, "file"), bz(wf.files[j].present), wf.nodes[j].vals["detached"].v == 0, wf.nodes[j].vals["label"].v == lab)
            in_role = z3.Or(*[wf.files[j].vals["state"].v == st.value for st, ro in FILE_ROLE_BY_STATE.items() if ro == role])
            same.append(z3.And(att, in_role, z3.Not(bz(wf.nodes[j].vals["creator"].n)), wf.nodes[j].vals["creator"].v == ci))
        aux["same"] = z3.Or(*same)
        try:
            w.amend_step(c, **{("vol_paths" if vol else "out_paths"): ["a"]}, ran_concurrently=lambda a, b: False)
            aux["accepted"] = True
        except UsageError:
            aux["accepted"] = False

    def post(wf, aux):
        return [z3.And(z3.BoolVal(aux["accepted"]), z3.Not(aux["same"]))]

    def viol(res, wf0, m, content, which, aux):
        margs = {v: m.eval(z3.Int(v), model_completion=True).as_long() for v in ("m.c1", "m.r1")}
        body = f"        margs = {margs!r}\n" + BODY_GLOB
        _replay_generic(res, "O08.3", "O8.3:glob-product", content, body, "a step declares a path that a registered glob pattern matches, and is not rejected")

    c = _explore(res, "glob versus product", K, D, pre, action, post, on_violation=viol, lazy_enums=True, internal_error_violates=True, max_paths=4000, labels=LABELS, fixed=fixed)
    res.twin("paths explored", "sat" if c["paths"] >= 3 else "unsat", 0.0)
    res.nontrivial = len(res.queries)
    return res


def o8_4(tier):
    import stepup.core.workflow as wfm
    from vf import xh

    res = ObResult()
    pre = "0 <= gi < 4 and 0 <= oi < 6 and 0 <= oj < 6"
    if tier == "quick":
        pre += " and not second and oj == 0"
    res.bounds = pre + "; pools of 4 patterns / 6 paths (harness/c08.py); one or two declared paths; try_recycle answers arbitrarily"
    res.encoded += [enc(wfm.Workflow.define_step), enc(wfm.Workflow._raise_if_glob_match)]
    xh.run_condition(res, "C08", "O8.4", "harness.c08", "define_vs_glob", pre, 300 if tier == "quick" else 2400, what="define_step rejects an output matched by a registered glob, fresh or recycled")
    res.nontrivial = 1
    return res


OBLIGATIONS = [
    Ob("O8.1", o8_1, "_check_declaration is exact with respect to the claim on the path", weight=3, timeout={"quick": 2400, "thorough": 7200}),
    Ob("O8.3", o8_3, "a path matched by a registered glob pattern cannot be declared as an output or volatile output", weight=2, timeout={"quick": 2400, "thorough": 7200}),
    Ob("O8.4", o8_4, "define_step: glob-vs-output check applies to fresh and recycled definitions alike", weight=1),
    Ob("O8.2", o8_2, "pairs of declarations of one path: rejected in one order iff rejected in the other", weight=5, timeout={"quick": 3000, "thorough": 7200}),
]
