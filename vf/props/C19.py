"""C19 - exit status tells the truth about the build (exit status only)."""

from __future__ import annotations

from vf import xh
from vf.runner import Ob, ObResult, enc

CLAIM = (
    "C19 (exit status): report_unbuilt sets FAILED whenever a step failed, DRAINED iff draining, "
    "PENDING iff not draining and a required step remained pending, and returns zero only if nothing "
    "questionable was found; _report_glob_violations sets FAILED iff a match is a file a step builds."
)
OUTSIDE = [
    "the partition of pending steps over causes (analyze_pending uses window functions and a forest walk over nine temp tables: outside the SQL subset)",
    "the statement's 'failed bit exactly when ... a glob pattern matched a built file' is stronger than the code, which skips the glob report once another bit is set: the obligation is the implication both agree on (noted, not raised)",
    "INTERRUPTED / INTERNAL, added by the TUI",
]
ASSUMPTIONS = ["stubs: the three sub-reports return arbitrary flag sets; workflow.steps(FAILED) yields nfailed items"]


def _mk(oid, cond, pre, what):
    def fn(tier):
        import stepup.core.finalize as fin

        res = ObResult()
        res.bounds = pre
        res.encoded += [enc(fin.report_unbuilt), enc(fin._report_glob_violations)]
        xh.run_condition(res, "C19", oid, "harness.c19", cond, pre, 240 if tier == "quick" else 900, what=what)
        res.nontrivial = 1
        return res

    return fn


OBLIGATIONS = [
    Ob("O19.1", _mk("O19.1", "report_unbuilt_bits", "0 <= nfailed <= 2 and 0 <= glob_bits < 4 and 0 <= ndetached_failed <= 1", "report_unbuilt's bits"), "report_unbuilt"),
    Ob("O19.2", _mk("O19.2", "glob_violation_bits", "0 <= s0 < 5 and 0 <= s1 < 5 and 0 <= n <= 2", "glob violations: FAILED iff a built file matched, WARNING iff an undeclared one"), "_report_glob_violations"),
]
