"""C02 - the result of a build does not depend on scheduling (order-independent diagnostics)."""

from __future__ import annotations

from vf import xh
from vf.runner import Ob, ObResult, enc

CLAIM = (
    "C02 (mechanisms): the text of an error about two conflicting declarations is the same "
    "whichever of the two arrived first (symbolic execution of the real message functions over all "
    "role/creator/authorship combinations); and no completion or file update, in whatever order the "
    "scheduler happens to run them, leaves a step deferred whose dynamic inputs are all available "
    "(the deferred flag is the only thing that makes the outcome depend on who finished first): "
    "inductive step over the real mark_completed / update_file_hashes / mark_step_pending (E-SQL)."
)
OUTSIDE = [
    "the graph after a build for every job count / dispatch order (whole builds with subprocesses are not encoded)",
    "commutativity of two declarations on the stored graph: E-SQL obligations of C08",
]
ASSUMPTIONS = ["creators are drawn from {two steps, StepUp itself}; paths are fixed strings (the functions only interpolate them)"]


def _mk(oid, cond, pre, what):
    def fn(tier):
        import stepup.core.workflow as wfm

        res = ObResult()
        res.bounds = pre
        res.encoded += [enc(wfm._file_collision_message), enc(wfm._duplicate_step_message), enc(wfm._duplicate_static_tree_message), enc(wfm._claim_collision_message)]
        xh.run_condition(res, "C02", oid, "harness.c02", cond, pre, 240 if tier == "quick" else 900, what=what)
        res.nontrivial = 1
        return res

    return fn


JUDGE_DEFERRED = '''        def JUDGE(S0, S1, margs):
            def stuck(S):
                out = []
                for s, r in S["step"].items():
                    if not r[2]:
                        continue
                    blocked = False
                    for _, a, b, dyn in S["dep"]:
                        if b == s and dyn and a in S["file"]:
                            if S["file"][a][1] not in (14, 16):
                                blocked = True
                    if not blocked:
                        out.append(s)
                return out
            if stuck(S0):
                return ["precondition"]
            return [("deferred although every dynamic input is available", s) for s in stuck(S1)]
'''


def _deferred_ok(wf):
    """deferred => some dynamic input is not CONFIRMED or BUILT.  (This is the project's own meaning of a
    legitimate deferral -- the docstring of Step.has_unavailable_dynamic_input and the comment on
    _INSERT_PEND_FILE_BLOCK in pending.py; a first version used the dispatch rule, which ignores
    detached inputs, and raised a false alarm: DESIGN.md section 11.)"""
    from vf.symsql.model import enums

    FileState, _, _ = enums()
    import z3

    from vf.symsql.values import bz

    cons = []
    for j in range(wf.K):
        s = wf.steps[j]
        blocks = []
        for d, r in enumerate(wf.deps):
            for f in range(wf.K):
                e = z3.And(bz(r.present), r.vals["sink"].v == j + 1, r.vals["source"].v == f + 1, bz(wf.files[f].present), wf.is_dyn(d))
                st = wf.files[f].vals["state"].v
                blocks.append(z3.And(e, st != FileState.CONFIRMED.value, st != FileState.BUILT.value))
        cons.append(z3.Implies(z3.And(bz(s.present), s.vals["deferred"].v != 0), z3.Or(*blocks) if blocks else z3.BoolVal(False)))
    return cons


def _mk_def(name):
    def fn(tier):
        import z3

        from vf.props import C09
        from vf.runner import ObResult

        def post(wf, aux):
            return [z3.Not(c) for c in _deferred_ok(wf)]

        return C09.explore_op(ObResult(), "O02", name, tier, post, "leaves a step deferred although all its dynamic inputs are available", judge_src=JUDGE_DEFERRED, extra_pre=_deferred_ok, key=f"O2.5:{name}")

    return fn


DEF_OPS = ["mark_completed(success)", "mark_completed(failure)", "update_file_hashes(SUCCEEDED)", "update_file_hashes(EXTERNAL)", "mark_step_pending"]

OBLIGATIONS = [
    Ob("O2.1a", _mk("O2.1a", "file_collision_symmetric", "0 <= ra < 3 and 0 <= rb < 3 and 0 <= ca < 3 and 0 <= cb < 3", "_file_collision_message is symmetric in its two declarations"), "file collision message symmetric"),
    Ob("O2.1b", _mk("O2.1b", "duplicate_messages_symmetric", "0 <= ca < 3 and 0 <= cb < 3", "duplicate step / static tree messages are symmetric"), "duplicate messages symmetric"),
    Ob("O2.1c", _mk("O2.1c", "claim_collision_symmetric", "0 <= ra < 3 and 0 <= rb < 3 and 0 <= na < 3 and 0 <= nb < 3", "_claim_collision_message does not depend on which declaration already exists"), "claim collision message symmetric"),
] + [Ob(f"O2.5{chr(97 + k)}", _mk_def(n), f"{n} leaves no step deferred without an unavailable dynamic input", weight=3, timeout={"quick": 2400, "thorough": 7200}) for k, n in enumerate(DEF_OPS)]
