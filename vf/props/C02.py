"""C02 - the result of a build does not depend on scheduling (order-independent diagnostics)."""

from __future__ import annotations

from vf import xh
from vf.runner import Ob, ObResult, enc

CLAIM = (
    "C02 (mechanisms): the text of an error about two conflicting declarations is the same "
    "whichever of the two arrived first (symbolic execution of the real message functions over all "
    "role/creator/authorship combinations)."
)
OUTSIDE = [
    "the graph after a build for every job count / dispatch order (whole builds with subprocesses are not encoded)",
    "commutativity of two declarations on the stored graph: E-SQL obligations of C08",
]
ASSUMPTIONS = ["creators are drawn from {two steps, StepUp itself}; paths are fixed strings (the functions only interpolate them)"]


def _mk(oid, cond, pre, what):
    def fn(tier):
        import stepup.core.workflow as wfm

        res = ObResult()
        res.bounds = pre
        res.encoded += [enc(wfm._file_collision_message), enc(wfm._duplicate_step_message), enc(wfm._duplicate_static_tree_message), enc(wfm._claim_collision_message)]
        xh.run_condition(res, "C02", oid, "harness.c02", cond, pre, 240 if tier == "quick" else 900, what=what)
        res.nontrivial = 1
        return res

    return fn


OBLIGATIONS = [
    Ob("O2.1a", _mk("O2.1a", "file_collision_symmetric", "0 <= ra < 3 and 0 <= rb < 3 and 0 <= ca < 3 and 0 <= cb < 3", "_file_collision_message is symmetric in its two declarations"), "file collision message symmetric"),
    Ob("O2.1b", _mk("O2.1b", "duplicate_messages_symmetric", "0 <= ca < 3 and 0 <= cb < 3", "duplicate step / static tree messages are symmetric"), "duplicate messages symmetric"),
    Ob("O2.1c", _mk("O2.1c", "claim_collision_symmetric", "0 <= ra < 3 and 0 <= rb < 3 and 0 <= na < 3 and 0 <= nb < 3", "_claim_collision_message does not depend on which declaration already exists"), "claim collision message symmetric"),
]
