"""C17 - named glob matching is consistent with the file system and with itself."""

from __future__ import annotations

import fnmatch
import itertools
import os
import re
import time

import z3

from vf import xh, z3re
from vf.runner import Ob, ObResult, Violation, enc, run_replay, write_replay

CLAIM = (
    "C17: for every pattern of the token grammar up to the length bound, the regex produced by the "
    "real convert_nglob_to_regex (translated exactly to a z3 regular expression) accepts the same "
    "normalised relative paths as a reference assembled from the stdlib's own fnmatch.translate per "
    "component (files always; directories for patterns ending in '/', '*', '**', '${*name}'); naming a "
    "wildcard does not change the language; a repeated name equals distinct names plus equality; "
    "extend/reduce/will_change equal a rescan."
)
OUTSIDE = [
    "the file-system walk of glob.iglob itself and is_dir()",
    "directories matched by patterns that do not end in a wildcard or separator: NamedGlob drops them by convention (a pattern that does not end in '/', '*', '**' or a named '*' designates files); observed, not asserted",
    "patterns longer than the bound; absolute patterns; character classes other than [ab], [!a]",
]
ASSUMPTIONS = [
    "paths are normalised relative paths (no empty, '.' or '..' component), directories carry a trailing '/'",
    "reference semantics of glob(recursive=True, include_hidden=True) as built in _reference(); validated against the real glob module on a generated tree on every run",
]

TOKENS = ["a", "b", ".", "/", "*", "?", "[ab]", "[!a]", "**", "${*n}", "${*m}"]
SUBS = {"m": "?*"}


def wellformed(toks):
    s = "".join(toks)
    if s.startswith("/") or "//" in s:
        return False
    comps = s.split("/")
    if any(c in (".", "..") for c in comps):
        return False
    return True


def patterns(maxlen):
    out = []
    for n in range(1, maxlen + 1):
        for toks in itertools.product(TOKENS, repeat=n):
            if wellformed(toks):
                out.append("".join(toks))
    return sorted(set(out))


# ---------------------------------------------------------------------------------------------
# reference: standard recursive glob including hidden files, as a z3 regex over path strings
# ---------------------------------------------------------------------------------------------

COMP = None


def comp_any():
    """one path component: non-empty, no '/'"""
    return z3.Plus(z3re.not_chars([47, 0]))


def symdiff_query(s, R, G, directory):
    """One regex-membership constraint: s is a valid path in the symmetric difference of R and G.
    (A single InRe is decided by z3's derivative-based regex solver; the equivalent Boolean
    combination of two InRe atoms made it return unknown on some patterns.)"""
    diff = z3.Union(z3.Intersect(R, z3.Complement(G)), z3.Intersect(G, z3.Complement(R)))
    return z3.InRe(s, z3.Intersect(valid_re(directory), diff))


def valid_re(directory=False):
    slash = z3.Re(z3.StringVal("/"))
    dot = z3.Re(z3.StringVal("."))
    dotdot = z3.Re(z3.StringVal(".."))
    comp = z3.Intersect(comp_any(), z3.Complement(z3.Union(dot, dotdot)))
    body = z3.Concat(z3.Star(z3.Concat(comp, slash)), comp)
    if directory:
        body = z3.Concat(body, slash)
    return body


def valid_path(s, directory=False):
    """s is a normalised relative path (components non-empty, not '.'/'..'); dirs end in '/'."""
    slash = z3.Re(z3.StringVal("/"))
    dot = z3.Re(z3.StringVal("."))
    dotdot = z3.Re(z3.StringVal(".."))
    comp = z3.Intersect(comp_any(), z3.Complement(z3.Union(dot, dotdot)))
    body = z3.Concat(z3.Star(z3.Concat(comp, slash)), comp)
    if directory:
        body = z3.Concat(body, slash)
    return z3.InRe(s, body)


def fn_component(q):
    """regex of one glob component via the stdlib's own fnmatch.translate"""
    rx = fnmatch.translate(q)
    rx = re.sub(r"\\Z$", "", rx)
    r = z3re.to_re(rx)
    return z3.Intersect(r, comp_any())


def _reference(glob_pattern: str, directory: bool):
    """z3 regex of the paths (files: no trailing slash; directories: WITHOUT the trailing slash)
    that glob.glob(glob_pattern, recursive=True, include_hidden=True) returns, for existing
    normalised relative paths."""
    slash = z3.Re(z3.StringVal("/"))
    comps = glob_pattern.split("/")
    dir_only = comps[-1] == ""
    if dir_only:
        comps = comps[:-1]
        if not directory:
            return None  # a pattern ending in '/' never returns a file
    if not comps:
        return None
    many = z3.Star(z3.Concat(comp_any(), slash))  # zero or more complete components
    parts = []
    for k, q in enumerate(comps):
        last = k == len(comps) - 1
        if q == "**":
            if last:
                # everything below; for a directory also the prefix itself (zero components),
                # which glob reports when there is a prefix
                alts = [z3.Concat(many, comp_any())]
                parts.append(("last**", alts[0]))
            else:
                parts.append(("mid**", many))
        else:
            r = fn_component(q)
            parts.append(("comp", r if last else z3.Concat(r, slash)))
    # assemble
    seq = [p[1] for p in parts]
    full = seq[0] if len(seq) == 1 else z3.Concat(*seq)
    if parts[-1][0] == "last**" and directory and len(parts) > 1:
        # the directory that precedes a trailing '**' is returned too (as 'prefix/')
        prefix = []
        for k, (kind, r) in enumerate(parts[:-1]):
            prefix.append(r)
        pre = prefix[0] if len(prefix) == 1 else z3.Concat(*prefix)
        # prefix regexes end with '/', the directory path itself has no trailing slash here
        q_prefix = _reference("/".join(comps[:-1]), True)
        if q_prefix is not None:
            full = z3.Union(full, q_prefix)
    return full


def validate_reference(pats, seed=0):
    """Differential: _reference vs the real glob module on a generated tree."""
    import glob
    import random
    import tempfile

    from stepup.core.nglob import convert_nglob_to_glob

    rng = random.Random(seed)
    names = ["a", "b", "ab", ".a", "a.b", "x", "ba", "_"]
    n = 0
    with tempfile.TemporaryDirectory(prefix="vf17") as tmp:
        cwd = os.getcwd()
        os.chdir(tmp)
        try:
            files, dirs = [], []
            dnames = ["", "a/", "b/", "ab/", "a/b/", ".a/", "a/a/", "x/"]
            for d1 in dnames:
                if d1:
                    os.makedirs(d1, exist_ok=True)
                    dirs.append(d1[:-1])
            for d1 in dnames:
                for nm in rng.sample(names, 4):
                    p = d1 + nm
                    if not os.path.exists(p):
                        open(p, "w").close()
                        files.append(p)
            dirs = sorted(set(dirs))
            for pat in pats:
                gp = convert_nglob_to_glob(pat, SUBS)
                real = set(glob.glob(gp, recursive=True, include_hidden=True))
                real_files = {x for x in real if not os.path.isdir(x)}
                real_dirs = {x.rstrip("/") for x in real if os.path.isdir(x) and x.rstrip("/")}
                for directory, universe, want in ((False, files, real_files), (True, dirs, real_dirs)):
                    ref = _reference(gp, directory)
                    for x in universe:
                        got = False
                        if ref is not None:
                            got = z3.is_true(z3.simplify(z3.InRe(z3.StringVal(x), ref)))
                        n += 1
                        if got != (x in want):
                            raise AssertionError(
                                f"glob reference model disagrees with glob.glob: pattern={gp!r} path={x!r} "
                                f"directory={directory} model={got} glob={x in want}"
                            )
        finally:
            os.chdir(cwd)
    return n


def dir_convention(pattern: str) -> bool:
    """Patterns for which NamedGlob also records matching directories."""
    if pattern.endswith(("/", "*")):
        return True
    mo = re.search(r"\$\{\*([a-zA-Z0-9_]*)\}$", pattern)
    # a trailing named wildcard counts when it stands for a plain '*' (no substitution)
    return mo is not None and mo.group(1) not in SUBS


REPLAY = '''
import glob, os, tempfile
from stepup.core.nglob import NamedGlob, convert_nglob_to_glob
pattern, subs, path, is_dir = {pattern!r}, {subs!r}, {path!r}, {is_dir!r}
tmp = tempfile.mkdtemp(prefix="vf17replay")
os.chdir(tmp)
if is_dir:
    os.makedirs(path, exist_ok=True)
else:
    if os.path.dirname(path):
        os.makedirs(os.path.dirname(path), exist_ok=True)
    open(path, "w").close()
ng = NamedGlob(pattern, subs)
ng.glob()
recorded = {{str(p) for p in ng.files()}}
std = set()
for x in glob.glob(convert_nglob_to_glob(pattern, subs), recursive=True, include_hidden=True):
    std.add(x.rstrip("/") + "/" if os.path.isdir(x) else x)
std.discard("/")
target = path + "/" if is_dir else path
# the matcher alone (what the watcher and extend() use)
ng2 = NamedGlob(pattern, subs)
ng2.extend([target])
matcher = {{str(p) for p in ng2.files()}}
print("pattern", pattern, "path", repr(target))
print("recorded by glob():", sorted(recorded)); print("standard glob:", sorted(std)); print("matcher accepts:", sorted(matcher))
bad = ((target in recorded) != (target in std)) or ((target in matcher) != (target in std))
import shutil; os.chdir("/"); shutil.rmtree(tmp)
sys.exit(1 if bad else 0)
'''


def _replay(res, oid, pattern, path, is_dir, what, key):
    body = REPLAY.format(pattern=pattern, subs=SUBS, path=path, is_dir=is_dir)
    rp = write_replay("C17", oid, f"{key} {pattern!r} {path!r}", body)
    ok, out = run_replay(rp)
    if ok:
        res.violations.append(Violation(key, f"{what}: pattern {pattern!r}, path {path + ('/' if is_dir else '')!r}", {"pattern": pattern, "path": path, "directory": is_dir}, rp))
    else:
        res.inconclusive.append(f"model pattern={pattern!r} path={path!r} dir={is_dir} does not reproduce: {out[-300:]}")


def mk_match(chunk, nchunks):
    def fn(tier):
        from stepup.core import nglob

        res = ObResult()
        maxlen = 3  # both tiers: see DESIGN.md section 10 (observations beyond the registered bound)
        pats = patterns(maxlen)
        res.bounds = f"patterns of <= {maxlen} tokens over {TOKENS} ({len(pats)} well-formed), subs {SUBS}; paths: all normalised relative paths (unbounded length); chunk {chunk}/{nchunks}"
        res.encoded += [enc(nglob.convert_nglob_to_regex), enc(nglob.convert_nglob_to_glob)]
        seed = int(os.environ.get("VERIF_SEED", "0") or 0)
        if chunk == 0:
            res.extra["reference_vs_real_glob_cases"] = validate_reference(pats[:: max(1, len(pats) // 150)], seed)
            cases = [(nglob.convert_nglob_to_regex(p, SUBS), t) for p in pats[:: max(1, len(pats) // 40)] for t in ("a", "a/b", "ab/", ".a/x", "a\nb")]
            res.extra["z3re_vs_re_cases"] = z3re.selftest(cases)
        mine = pats[chunk::nchunks]
        s = z3.String("path")
        reached = 0
        seen_keys = set()
        for pat in mine:
            names = list(nglob.iter_wildcard_names(pat))
            if len(names) != len(set(names)):
                # repeated names: O17.4 shows L(repeated) is included in L(distinct names) with equal
                # captures, and the distinct-name pattern is decided here; z3 returns unknown on
                # word equations under a complemented regex, so the composition is used instead.
                continue
            repeated = False
            try:
                ng = nglob.NamedGlob(pat, dict(SUBS))  # the live object: regex text AND compile flags
                rx = ng._regex.pattern
                gp = ng._glob_pattern
            except ValueError as exc:
                res.inconclusive.append(f"pattern {pat!r} rejected: {exc}")
                continue
            tr = z3re.Translator(dotall=bool(ng._regex.flags & re.DOTALL))
            for directory in (False, True):
                if directory and not dir_convention(pat):
                    continue
                ref = _reference(gp, directory)
                # s is the path as StepUp spells it: directories carry a trailing '/'
                slash = z3.Re(z3.StringVal("/"))
                R = tr.re_of(list(tr.parse(rx)))
                mem = z3.InRe(s, R)
                if ref is None:
                    G = z3.Empty(z3.ReSort(z3.StringSort()))
                else:
                    G = z3.Concat(ref, slash) if directory else ref
                base = [valid_path(s, directory)]
                name = f"{pat!r} {'dir' if directory else 'file'}: matcher == standard glob"
                v, m, dt = z3re.check([symdiff_query(s, R, G, directory)], 60000)
                res.q(name, v, dt)
                if v == "sat":
                    path = z3re.decode_z3_string(z3re.model_str(m, s))
                    kind = "other"
                    if "[!" in pat:
                        # is the negated class matching '/' the ONLY disagreement of this pattern?
                        rx2 = rx.replace("[^", "[^/")
                        R2 = tr.re_of(list(tr.parse(rx2)))
                        v2, m2, dt2 = z3re.check([symdiff_query(s, R2, G, directory)], 60000)
                        res.q(name + " (with '/' excluded from negated classes)", v2, dt2)
                        if v2 == "unsat":
                            kind = "negated-class-slash"
                        elif v2 == "sat":
                            path = z3re.decode_z3_string(z3re.model_str(m2, s))
                    key = f"O17.1:{kind}"
                    if key in seen_keys and kind != "other":
                        # one witness per known class is replayed; further ones are the same finding
                        res.extra.setdefault("more_witnesses", []).append([pat, path])
                        continue
                    seen_keys.add(key)
                    _replay(res, f"O17.1.{chunk}", pat, path.rstrip("/") if directory else path, directory, "matcher and standard glob disagree", key)
                elif v == "unsat" and not reached:
                    v2, m2, dt2 = z3re.check(base + [mem], 20000)
                    if v2 == "sat":
                        reached += 1
                        res.samples.append({"pattern": pat, "regex": rx, "glob": gp, "accepted_path": z3re.decode_z3_string(z3re.model_str(m2, s))})
        res.twin("some pattern accepts some valid path", "sat" if reached or res.violations else "unsat", 0.0)
        res.nontrivial = len(res.queries)
        return res

    return fn


def o17_naming(tier):
    """Replacing an anonymous '*' by a named wildcard never changes which paths match."""
    from stepup.core import nglob

    res = ObResult()
    maxlen = 3  # both tiers (DESIGN.md section 10)
    toks = [t for t in TOKENS if not t.startswith("${")]
    pats = sorted({"".join(t) for n in range(1, maxlen + 1) for t in itertools.product(toks, repeat=n) if wellformed(t)})
    pats = [p for p in pats if "*" in p]
    res.bounds = f"{len(pats)} patterns of <= {maxlen} tokens containing '*'; every single '*' position renamed; all strings"
    res.encoded.append(enc(nglob.convert_nglob_to_regex))
    s = z3.String("s")
    done = 0
    for pat in pats:
        parts = nglob.RE_ANY_WILD.split(pat)
        for i, part in enumerate(parts):
            if i % 2 == 1 and part == "*":
                named = "".join(parts[:i] + ["${*k}"] + parts[i + 1 :])
                r1 = z3re.to_re(nglob.convert_nglob_to_regex(pat))
                t2 = z3re.Translator()
                r2 = t2.re_of(list(t2.parse(nglob.convert_nglob_to_regex(named))))
                v, m, dt = z3re.check([z3.InRe(s, r1) != z3.InRe(s, r2)], 60000)
                res.q(f"L({pat!r}) == L({named!r})", v, dt)
                done += 1
                if v == "sat":
                    path = z3re.decode_z3_string(z3re.model_str(m, s))
                    body = (
                        "from stepup.core.nglob import NamedGlob\n"
                        f"a, b, path = {pat!r}, {named!r}, {path!r}\n"
                        "x = NamedGlob(a); x.extend([path]); y = NamedGlob(b); y.extend([path])\n"
                        "print(a, x.files(), b, y.files())\n"
                        "sys.exit(1 if bool(x.files()) != bool(y.files()) else 0)\n"
                    )
                    rp = write_replay("C17", "O17.3", f"{pat} {named} {path!r}", body)
                    ok, out = run_replay(rp)
                    if ok:
                        res.violations.append(Violation("O17.3:naming", f"naming a '*' changes the matches: {pat!r} vs {named!r} on {path!r}", {"pattern": pat, "named": named, "path": path}, rp))
                    else:
                        res.inconclusive.append(f"naming model {pat!r}/{named!r}/{path!r} does not reproduce")
    v, m, dt = z3re.check([z3.InRe(s, z3re.to_re(nglob.convert_nglob_to_regex("a*/*")))], 20000)
    res.twin("a starred pattern accepts something", v, dt)
    res.nontrivial = done
    return res


def _rename_repeats(pat):
    """pattern with repeated names -> (pattern with later occurrences renamed, {new: old})"""
    from stepup.core import nglob

    parts = nglob.RE_ANY_WILD.split(pat)
    seen = {}
    ren = {}
    for i, part in enumerate(parts):
        if i % 2 == 1 and part.startswith("${*"):
            name = part[3:-1]
            if name in seen:
                seen[name] += 1
                new = f"{name}{seen[name]}"
                ren[new] = name
                parts[i] = "${*" + new + "}"
            else:
                seen[name] = 0
    return "".join(parts), ren


def o17_repeat(tier):
    """A repeated name only matches equal substrings.

    For every pattern of the grammar with a repeated name, the regex the real code generates
    (back-reference translated as a shared string variable) is compared with the regex it
    generates when the later occurrences are renamed: every valid path the repeated pattern
    accepts, split at its own group boundaries, is accepted piece by piece by the renamed
    pattern, whose renamed groups then hold the same substring as the original group."""
    from stepup.core import nglob

    res = ObResult()
    res.encoded.append(enc(nglob.convert_nglob_to_regex))
    maxlen = 3  # both tiers (DESIGN.md section 10)
    pats = []
    for p in patterns(maxlen):
        names = list(nglob.iter_wildcard_names(p))
        if len(names) != len(set(names)):
            pats.append(p)
    res.bounds = f"{len(pats)} patterns of <= {maxlen} tokens with a repeated name, subs {SUBS}; all normalised relative paths (files and directories)"
    s = z3.String("path")
    reach = 0
    for pat in pats:
        dis, ren = _rename_repeats(pat)
        subs = dict(SUBS)
        for new, old in ren.items():
            if old in SUBS:
                subs[new] = SUBS[old]
        rx_rep = nglob.convert_nglob_to_regex(pat, subs)
        rx_dis = nglob.convert_nglob_to_regex(dis, subs)
        for directory in (False, True):
            subject = z3.Concat(s, z3.StringVal("/")) if directory else s
            t_rep = z3re.Translator()
            try:
                m_rep, g_rep = t_rep.member(subject, rx_rep, tag="r")
            except ValueError as exc:
                res.inconclusive.append(f"{pat!r}: {exc}")
                continue
            pieces = t_rep.last_pieces
            t_dis = z3re.Translator()
            items_dis = list(t_dis.parse(rx_dis))
            # align: one piece of the repeated split per top-level group / back-reference / run
            import re._constants as C

            dis_pieces = []
            buf = []
            for op, av in items_dis:
                if op is C.SUBPATTERN and av[0] in t_dis.idx2name:
                    if buf:
                        dis_pieces.append(("run", t_dis.re_of(buf), None))
                        buf = []
                    dis_pieces.append(("group", t_dis.re_of(av[3]), t_dis.idx2name[av[0]]))
                else:
                    buf.append((op, av))
            if buf:
                dis_pieces.append(("run", t_dis.re_of(buf), None))
            empty = z3.StringVal("")
            if len(dis_pieces) < len(pieces) or len(dis_pieces) > len(pieces) + 1:
                res.q(f"{pat!r}: same piece structure as {dis!r}", "sat", 0.0, note=f"{rx_rep} vs {rx_dis}")
                _repeat_violation(res, nglob, pat, dis, subs, rx_rep)
                break
            conj = []
            cap = {}
            for k, (kind, lang, name) in enumerate(dis_pieces):
                var = pieces[k] if k < len(pieces) else empty
                conj.append(z3.InRe(var, lang))
                if name is not None:
                    cap[name] = var
            for new, old in ren.items():
                if new in cap and old in cap:
                    conj.append(cap[new] == cap[old])
                else:
                    conj.append(z3.BoolVal(False))
            v, m, dt = z3re.check([valid_path(s, False), m_rep, z3.Not(z3.And(*conj))], 60000)
            res.q(f"{pat!r} {'dir' if directory else 'file'}: accepted paths are accepted by {dis!r} with equal substrings", v, dt)
            if v == "sat":
                path = z3re.decode_z3_string(z3re.model_str(m, s)) + ("/" if directory else "")
                body = (
                    "import re\nfrom stepup.core.nglob import convert_nglob_to_regex as c\n"
                    f"p_rep, p_dis, subs, ren, path = {pat!r}, {dis!r}, {subs!r}, {ren!r}, {path!r}\n"
                    "r, d = re.compile(c(p_rep, subs)), re.compile(c(p_dis, subs))\n"
                    "mr, md = r.fullmatch(path), d.fullmatch(path)\n"
                    "ok = mr is None or (md is not None and all(md.group(n) == md.group(o) for n, o in ren.items()))\n"
                    "print(r.pattern, d.pattern, repr(path), mr, md)\n"
                    "sys.exit(0 if ok else 1)\n"
                )
                rp = write_replay("C17", "O17.4", f"{pat} {path!r}", body)
                okr, out = run_replay(rp)
                if okr:
                    res.violations.append(Violation("O17.4:repeat", f"repeated name in {pat!r} accepts {path!r} without equal substrings", {"pattern": pat, "path": path, "regex": rx_rep}, rp))
                else:
                    res.inconclusive.append(f"{pat!r}: model {path!r} does not reproduce with python's re (python may pick another split): {out[-200:]}")
            elif v == "unsat" and reach < 3:
                v2, m2, _ = z3re.check([valid_path(s, False), m_rep, z3.Length(s) > 2], 20000)
                if v2 == "sat":
                    reach += 1
                    res.samples.append({"pattern": pat, "regex": rx_rep, "accepted": z3re.decode_z3_string(z3re.model_str(m2, s))})
    res.twin("some repeated-name pattern accepts a valid path", "sat" if reach else "unsat", 0.0)
    res.nontrivial = len(res.queries)
    return res


def _repeat_violation(res, nglob, pat, dis, subs, rx_rep):
    wit = _find_repeat_witness(nglob, pat, dis, subs)
    if wit is None:
        res.inconclusive.append(f"regex of {pat!r} ({rx_rep!r}) has another structure than that of {dis!r} but no concrete witness was found")
        return
    body = (
        "import re\nfrom stepup.core.nglob import convert_nglob_to_regex as c\n"
        f"p_rep, subs, path = {pat!r}, {subs!r}, {wit!r}\n"
        "print(c(p_rep, subs), repr(path), re.fullmatch(c(p_rep, subs), path))\nsys.exit(1)\n"
    )
    rp = write_replay("C17", "O17.4", f"{pat} {wit!r}", body)
    res.violations.append(Violation("O17.4:repeat", f"repeated name mishandled in {pat!r}: {wit!r}", {"pattern": pat, "path": wit, "regex": rx_rep}, rp))


def _find_repeat_witness(nglob, p_rep, p_dis, subs):
    """Bounded concrete search, used only to illustrate a structural mismatch found by the queries:
    a path the repeated pattern accepts and the renamed one rejects."""
    rx_rep = re.compile(nglob.convert_nglob_to_regex(p_rep, subs))
    rx_dis = re.compile(nglob.convert_nglob_to_regex(p_dis, subs))
    for n in range(1, 7):
        for t in itertools.product("ab/_.x", repeat=n):
            s = "".join(t)
            if s.startswith("/") or "//" in s:
                continue
            if rx_rep.fullmatch(s) is not None and rx_dis.fullmatch(s) is None:
                return s
    return None


def o17_update(tier):
    from stepup.core import nglob

    res = ObResult()
    res.encoded += [enc(nglob.NamedGlob.extend), enc(nglob.NamedGlob.reduce), enc(nglob.NamedGlob.will_change), enc(nglob.NamedGlob.files)]
    quick = True  # the 3-path universe was not confirmed within 3000 s: both tiers use 2 paths
    pre = "0 <= k0 <= 2 and 0 <= k1 <= 2" + ("" if quick else " and 0 <= k2 <= 2")
    res.bounds = f"universe of {2 if quick else 3} paths; symbolic membership in old / added / deleted; abstract matcher path -> key in {{no match, key 1, key 2}}"
    xh.run_condition(res, "C17", "O17.5", "harness.c17", "update_equals_rescan2" if quick else "update_equals_rescan", pre, 300 if quick else 3000, what="will_change(deleted, added) == rescan of (old + added) - deleted; None iff unchanged")
    res.nontrivial = 1
    return res


def _compile_flags(fn):
    """flags of every re.compile(...) call inside the live source of fn"""
    import ast
    import inspect
    import textwrap

    tree = ast.parse(textwrap.dedent(inspect.getsource(fn)))
    out = []
    for node in ast.walk(tree):
        if isinstance(node, ast.Call) and isinstance(node.func, ast.Attribute) and node.func.attr == "compile" and isinstance(node.func.value, ast.Name) and node.func.value.id == "re":
            flags = 0
            if len(node.args) > 1:
                flags = eval(compile(ast.Expression(node.args[1]), "<flags>", "eval"), {"re": re})
            for kw in node.keywords:
                if kw.arg == "flags":
                    flags = eval(compile(ast.Expression(kw.value), "<flags>", "eval"), {"re": re})
            out.append(int(flags))
    return out


def o17_sites(tier):
    """The stored regex text is re-compiled in workflow.py (matches_any_glob, _raise_if_glob_match):
    under the flags used there it must accept the same language as NamedGlob's own matcher."""
    from stepup.core import nglob
    from stepup.core.workflow import Workflow

    res = ObResult()
    sites = {"Workflow.matches_any_glob": Workflow.matches_any_glob, "Workflow._raise_if_glob_match": Workflow._raise_if_glob_match}
    res.encoded += [enc(f) for f in sites.values()]
    maxlen = 2 if tier == "quick" else 3
    pats = patterns(maxlen)
    res.bounds = f"{len(pats)} patterns of <= {maxlen} tokens; all strings"
    s = z3.String("s")
    for name, fn in sites.items():
        flags = _compile_flags(fn)
        if len(flags) != 1:
            res.inconclusive.append(f"{name}: expected exactly one re.compile call, found {len(flags)}")
            continue
        for pat in pats:
            ng = nglob.NamedGlob(pat, dict(SUBS))
            names = list(nglob.iter_wildcard_names(pat))
            if len(names) != len(set(names)):
                continue
            a = z3re.Translator(dotall=bool(ng._regex.flags & re.DOTALL))
            b = z3re.Translator(dotall=bool(flags[0] & re.DOTALL))
            ra = a.re_of(list(a.parse(ng._regex.pattern)))
            rb = b.re_of(list(b.parse(ng._regex.pattern)))
            v, m, dt = z3re.check([z3.InRe(s, ra) != z3.InRe(s, rb)], 30000)
            res.q(f"{name}: stored regex of {pat!r} means the same as NamedGlob's matcher", v, dt)
            if v == "sat":
                path = z3re.decode_z3_string(z3re.model_str(m, s))
                body = (
                    "import re\nfrom stepup.core.nglob import NamedGlob\n"
                    f"pat, subs, path, flags = {pat!r}, {SUBS!r}, {path!r}, {flags[0]!r}\n"
                    "ng = NamedGlob(pat, subs)\n"
                    "a = ng._regex.fullmatch(path) is not None\n"
                    "b = re.compile(ng._regex.pattern, flags).fullmatch(path) is not None\n"
                    f"print('NamedGlob', a, '{name}', b)\nsys.exit(1 if a != b else 0)\n"
                )
                rp = write_replay("C17", "O17.6", f"{name} {pat} {path!r}", body)
                okr, out = run_replay(rp)
                if okr:
                    res.violations.append(Violation(f"O17.6:{name}", f"{name} compiles the stored regex with other flags than NamedGlob: {pat!r} on {path!r}", {"pattern": pat, "path": path}, rp))
                    break
                res.inconclusive.append(f"{name}: model does not reproduce")
    v, m, dt = z3re.check([z3.InRe(s, z3re.to_re(nglob.convert_nglob_to_regex("**")))], 10000)
    res.twin("a stored regex accepts something", v, dt)
    res.nontrivial = len(res.queries)
    return res


def o17_removed_dir(tier):
    """Updating a recorded match set after a directory was removed equals a rescan: the watcher
    must be told about every recorded match beneath the removed directory (shared with C14/O14.5)."""
    import stepup.core.workflow as wfm

    res = ObResult()
    pre = "0 <= di < 6 and 0 <= g0 < 6 and 0 <= g1 < 6 and 0 <= nglobs <= 2"
    res.bounds = pre + " (pools of directories, patterns and recorded files in harness/c14.py)"
    res.encoded.append(enc(wfm.Workflow.relevant_paths_under))
    xh.run_condition(res, "C17", "O17.7", "harness.c14", "relevant_under", pre, 400 if tier == "quick" else 900, what="a removed directory reports exactly the recorded glob matches beneath it")
    res.nontrivial = 1
    return res


NCHUNK = 8
OBLIGATIONS = [Ob(f"O17.1.{k}", mk_match(k, NCHUNK), f"matcher == standard recursive glob (pattern chunk {k}/{NCHUNK})", weight=4, timeout={"quick": 1200, "thorough": 5400}) for k in range(NCHUNK)]
OBLIGATIONS += [
    Ob("O17.3", o17_naming, "naming an anonymous '*' changes nothing", weight=3),
    Ob("O17.4", o17_repeat, "a repeated name is a back-reference; everything else unchanged", weight=2),
    Ob("O17.7", o17_removed_dir, "removed directory: recorded matches beneath it are reported", weight=3, timeout={"quick": 900, "thorough": 2400}),
    Ob("O17.6", o17_sites, "compile sites of the stored regex agree with NamedGlob", weight=2),
    Ob("O17.5", o17_update, "incremental update == rescan", weight=3, timeout={"quick": 900, "thorough": 5400}),
]
