"""C06 - cleaning never destroys what StepUp does not own (decision logic of both cleaners)."""

from __future__ import annotations

from vf import xh
from vf.runner import Ob, ObResult, enc

CLAIM = (
    "C06 (decision logic): File.before_delete, the queue built by revert_optional_steps, "
    "remove_deletable_files/_prune_empty_dirs, the guards of Builder.finalize and the removal loop of "
    "`stepup clean`, executed symbolically with arbitrary file-system answers: a file is removed "
    "only when it is volatile or its re-hash equals the recorded hash (safe mode), a directory only "
    "when empty, and automatic cleaning only after a complete unrestricted build with cleaning on."
)
OUTSIDE = [
    "'a path that no step ever declared' across histories (needs the graph invariants: C09/C07 E-SQL obligations)",
    "the read-only connection of the clean tool (URI flag of the C library)",
    "the SQL that selects clean candidates (SELECT_OUTPUTS, delete_detached candidates): E-SQL obligations of C07",
]
ASSUMPTIONS = [
    "stubs: database cursor rows, Path.remove/rmdir/is_dir/iterdir/exists, FileHash.refreshed outcome (same / different / cannot hash), reporter, rich Console",
]


def _mk(oid, cond, pre, what, encoded, tq=240, tt=900):
    def fn(tier):
        res = ObResult()
        res.bounds = pre
        res.encoded += [enc(f) for f in encoded()]
        xh.run_condition(res, "C06", oid, "harness.c06", cond, pre, tq if tier == "quick" else tt, what=what)
        res.nontrivial = 1
        return res

    return fn


def _e1():
    from stepup.core.file import File

    return [File.before_delete]


def _e2():
    import stepup.core.finalize as fin

    return [fin.revert_optional_steps]


def _e3():
    import stepup.core.finalize as fin

    return [fin.remove_deletable_files, fin._prune_empty_dirs, fin._try_remove]


def _e4():
    import stepup.core.builder as b

    return [b.Builder.finalize]


def _e5():
    import stepup.core.clean as c

    return [c.clean]


OBLIGATIONS = [
    Ob("O6.1", _mk("O6.1", "before_delete_contract", "0 <= state_i < 8", "File.before_delete queues only VOLATILE / BUILT / OUTDATED files, with the recorded hash", _e1), "File.before_delete"),
    Ob("O6.1b", _mk("O6.1b", "revert_queue_contract", "0 <= s0 < 3 and 0 <= s1 < 3 and 0 <= n <= 2", "revert_optional_steps queues regular outputs with their hash, volatile ones without", _e2), "queue of revert_optional_steps (also C07/C11)"),
    Ob("O6.2", _mk("O6.2", "remove_contract", "0 <= k0 < 5 and 0 <= k1 < 5 and 0 <= nfiles <= 2", "remove_deletable_files: only unmodified or volatile files, only empty directories", _e3, 400, 1200), "remove_deletable_files / _prune_empty_dirs", weight=3),
    Ob("O6.3", _mk("O6.3", "finalize_guard", "0 <= ntargets <= 1 and 0 <= ndirs <= 1 and 0 <= rc < 64", "Builder.finalize cleans iff unrestricted, complete, cleaning on", _e4, 400, 1200), "guards of Builder.finalize", weight=3),
    Ob("O6.5", _mk("O6.5", "clean_loop", "0 <= state_i < 3", "stepup clean: --commit, safe mode, volatile, empty parent", _e5), "removal loop of stepup clean", weight=2),
]
