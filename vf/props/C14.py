"""C14 - a watch-mode rebuild is equivalent to a restart (event folding and removed directories)."""

from __future__ import annotations

from vf import xh
from vf.runner import Ob, ObResult, enc

CLAIM = (
    "C14 (mechanisms): Watcher.record_change folds any sequence of up to four events into disjoint "
    "updated/deleted sets that reflect the last relevant event per path; a removed directory "
    "reports every recorded glob match beneath it; a requested directory with missing levels is recorded level by "
    "level, its nearest existing ancestor is watched, and when the levels appear it is watched and its files reported."
)
OUTSIDE = [
    "inotify delivery by the kernel, directory moves, events lost between phases, absolute or '..' directories handed to the wrapper",
    "that watch and restart apply the same graph transition (update_file_hashes with cause EXTERNAL): E-SQL obligations of C01",
]
ASSUMPTIONS = ["O14.6: the file system is a chain a/b/c/d of which a symbolic number of levels exists; Inotify, path.Path file-system calls and iter_until_stopped are stubs (harness/c14.py pending_dirs); a live watch is only assumed on an existing level", "Workflow.change_is_relevant is an arbitrary per-path constant during the sequence", "glob patterns and recorded files are drawn from fixed pools (harness/c14.py)"]


def _mk(oid, cond, pre_q, pre_t, what, tq=300, tt=1500):
    def fn(tier):
        import stepup.core.watcher as w
        import stepup.core.workflow as wfm

        res = ObResult()
        pre = pre_q if tier == "quick" else pre_t
        res.bounds = pre
        res.encoded += [enc(w.Watcher.record_change), enc(wfm.Workflow.relevant_paths_under)]
        xh.run_condition(res, "C14", oid, "harness.c14", cond, pre, tq if tier == "quick" else tt, what=what)
        res.nontrivial = 1
        return res

    return fn


def _mk6():
    pre_t = "1 <= n <= 4 and 0 <= e <= n and 0 <= w0 <= 2 and 0 <= w1 <= 2 and 0 <= w2 <= 2 and 0 <= w3 <= 2 and 0 <= wroot <= 2 and (w0 < 2 or e >= 1) and (w1 < 2 or e >= 2) and (w2 < 2 or e >= 3) and (w3 < 2 or e >= 4)"

    def fn(tier):
        import stepup.core.watcher as w

        res = ObResult()
        pre = pre_t if tier == "thorough" else pre_t + " and n <= 3 and w3 == 0"
        res.bounds = pre
        res.encoded += [enc(w.AsyncInotifyWrapper.dir_loop), enc(w.AsyncInotifyWrapper.change_loop), enc(w.AsyncInotifyWrapper._install_watch)]
        xh.run_condition(res, "C14", "O14.6", "harness.c14", "pending_dirs", pre, 400 if tier == "quick" else 1200, what="every missing level of a requested directory is recorded; when the levels appear the directory is watched and its file reported")
        res.nontrivial = 1
        return res

    return fn


EV = " and ".join(f"0 <= k{i} < 3 and 0 <= p{i} < 2" for i in range(4))
OBLIGATIONS = [
    Ob("O14.1", _mk("O14.1", "fold_events", EV + " and 0 <= n <= 3 and k3 == 0 and p3 == 0", EV + " and 0 <= n <= 4", "event folding: disjoint sets reflecting the last relevant event"), "Watcher.record_change folding", weight=3, timeout={"quick": 900, "thorough": 3600}),
    Ob("O14.6", _mk6(), "AsyncInotifyWrapper.dir_loop / change_loop: pending watches of missing directories", weight=1),
    Ob("O14.5", _mk("O14.5", "relevant_under", "0 <= di < 6 and 0 <= g0 < 6 and 0 <= g1 < 6 and 0 <= nglobs <= 2", "0 <= di < 6 and 0 <= g0 < 6 and 0 <= g1 < 6 and 0 <= nglobs <= 2", "a removed directory reports exactly the recorded glob matches beneath it"), "relevant_paths_under: recorded glob matches (also C17, C18)", weight=2),
]
