"""C13 - change detection by hashes is sound."""

from __future__ import annotations

import itertools
import os
import time

import z3

from vf import hashstream as hs
from vf import xh
from vf.runner import Ob, ObResult, Violation, enc, run_replay, write_replay
from vf.symsql.executor import Explorer

CLAIM = (
    "C13: the byte stream that StepHash.from_inp / with_out_hashes feed to SHA-256 (recorded from "
    "the real code run on symbolic word proxies) is injective on configurations and independent of "
    "ingredient order, within the shape and length bounds; FileHash.refreshed reports a change "
    "whenever a stat field differs and the content differs."
)
OUTSIDE = [
    "SHA-256 itself (assumed collision resistant: the digest is an injective opaque function of the stream)",
    "the JSON round trip of stored hashes (cattrs + C json module: not encodable)",
    "reading file content in chunks; more ingredients / longer strings than the bound",
]
ASSUMPTIONS = [
    "FileHash validity as documented: unknown => digest b'u', mode = size = 0; known => 32-byte digest and mode != 0",
    "labels, paths, env names/values are NUL-free (documented in HashWords) and at most 6 bytes (8 thorough)",
    "the command and working directory are part of the step label (Step.adjust_label), so 'label differs' covers them",
]


def seq_bytes(m, term):
    return term.eval(m)


def explore_stream(cfg: hs.Config, which="inp", order=None):
    """All (path condition, stream) pairs of the real code on this configuration."""
    from stepup.core.hash import StepHash

    results = []

    def body(run):
        hs.SymStr.run = run
        for c in cfg.cons:
            run.assume(c)

        def thunk():
            inp = cfg.inp_hashes
            env = cfg.env_values
            ovr = cfg.env_overrides
            if order is not None:
                inp = {k: inp[k] for k in _perm(list(inp), order[0])}
                env = {k: env[k] for k in _perm(list(env), order[1])}
                ovr = {k: ovr[k] for k in _perm(list(ovr), order[2])}
            with hs.patched_hashwords():
                if which == "inp":
                    sh = StepHash.from_inp(cfg.label, inp, env, explained=False, shell=cfg.shell, env_overrides=ovr)
                    return sh.inp_digest.stream
                base = StepHash(b"x" * 32)
                sh = base.with_out_hashes(inp)
                return sh.out_digest.stream

        return None, thunk

    def on_path(pr):
        if pr.outcome != "return":
            raise pr.value
        results.append((list(pr.run.pc), pr.value))

    ex = Explorer(max_paths=200, timeout_ms=60000)
    ex.explore(body, on_path)
    return results


def _perm(items, k):
    perms = list(itertools.permutations(items))
    return list(perms[k % len(perms)])


def shapes(tier):
    if tier == "quick":
        files = [(), ("k",), ("u",), ("k", "k"), ("k", "u")]
        envs = [(), ("s",), ("n",)]
    else:
        files = [(), ("k",), ("u",), ("k", "k"), ("k", "u"), ("u", "u")]
        envs = [(), ("s",), ("n",), ("s", "s"), ("s", "n")]
    ovrs = [0, 1]
    return [(f, e, o, False) for f in files for e in envs for o in ovrs]


REPLAY_INJ = '''
from stepup.core.hash import FileHash, StepHash
def cfg(d):
    inp = {{p: FileHash(dg, mode, 0.0, size, 0) for p, (dg, mode, size) in d["files"].items()}}
    return StepHash.from_inp(d["label"], inp, d["env"], explained=False, shell=d["shell"], env_overrides=d["ovr"])
A = {A!r}
B = {B!r}
which = {which!r}
if which == "inp":
    da, db = cfg(A).inp_digest, cfg(B).inp_digest
else:
    mk = lambda d: StepHash(b"x" * 32).with_out_hashes({{p: FileHash(dg, mode, 0.0, size, 0) for p, (dg, mode, size) in d["files"].items()}})
    da, db = mk(A).out_digest, mk(B).out_digest
print("A =", A); print("B =", B); print("digests equal:", da == db, "configs equal:", A == B)
sys.exit(1 if (da == db and A != B) else 0)
'''


def model_config(m, cfg: hs.Config):
    def s(x):
        return seq_bytes(m, x.term).decode("latin-1")

    files = {}
    for p, f in cfg.files:
        files[s(p)] = (
            seq_bytes(m, f["digest"]),
            m.eval(f["mode"], model_completion=True).as_long(),
            m.eval(f["size"], model_completion=True).as_long(),
        )
    return {
        "label": s(cfg.label),
        "shell": cfg.shell,
        "files": files,
        "env": {s(n): (None if v is None else s(v)) for n, v in cfg.env},
        "ovr": {s(n): s(v) for n, v in cfg.ovr},
    }


def injectivity(res: ObResult, which, pairs, maxlen, oid, strict=True, expect="unsat"):
    cache = {}

    def streams(tag, shape):
        key = (tag, shape)
        if key not in cache:
            cfg = hs.Config(tag, shape[0], shape[1], shape[2], shape[3], maxlen)
            cache[key] = (cfg, explore_stream(cfg, which))
        return cache[key]

    found_sat = 0
    for sa, sb in pairs:
        A, pa = streams("A", sa)
        B, pb = streams("B", sb)
        for (pca, stra), (pcb, strb) in itertools.product(pa, pb):
            s = z3.Solver()
            s.set("timeout", 120000)
            for c in A.cons + B.cons + pca + pcb:
                s.add(c)
            if strict:
                for c in A.strict + B.strict:
                    s.add(c)
            s.add(hs.bz(hs.stream_eq(stra, strb, s.add)))
            s.add(z3.Not(hs.configs_equal(A, B, inp=(which == "inp"))))
            t0 = time.time()
            r = str(s.check())
            dt = time.time() - t0
            name = f"{which} stream injective: shapes {sa} vs {sb}"
            if expect == "unsat":
                res.q(name, r, dt)
                if r == "sat":
                    m = s.model()
                    ca, cb = model_config(m, A), model_config(m, B)
                    key = f"{which} collision {ca} {cb}"
                    rp = write_replay("C13", oid, key, REPLAY_INJ.format(A=ca, B=cb, which=which))
                    ok, out = run_replay(rp)
                    if ok:
                        res.violations.append(Violation(f"{oid}:collision:{sa}:{sb}", f"two different configurations share a {which} digest", {"A": ca, "B": cb}, rp))
                    else:
                        res.inconclusive.append(f"collision model does not reproduce: {out[-300:]}")
            else:
                if r == "sat":
                    found_sat += 1
                    m = s.model()
                    res.samples.append({"relaxed_collision": {"A": str(model_config(m, A))[:400], "B": str(model_config(m, B))[:400]}})
                    return found_sat
    return found_sat


def _pairs(tier):
    """All unordered pairs of shapes with equal shell flag, plus every shape against itself with
    the other shell flag (the flag is one constant byte at a fixed offset after the label)."""
    sh = shapes(tier)
    pairs = [(a, b) for i, a in enumerate(sh) for b in sh[i:]]
    pairs += [(a, (a[0], a[1], a[2], True)) for a in sh]
    # interleave cheap and expensive pairs over the chunks
    pairs.sort(key=lambda p: (len(p[0][0]) + len(p[1][0]), len(p[0][1]) + len(p[1][1])))
    return pairs


def mk_inj(chunk, nchunks):
    def fn(tier):
        from stepup.core import hash as hm

        res = ObResult()
        maxlen = 6 if tier == "quick" else 8
        res.bounds = f"<= 2 input files (known/unknown), <= {1 if tier == 'quick' else 2} env vars (value or undefined), <= 1 override, both shell flags, strings <= {maxlen} NUL-free bytes, 32-byte digests; {len(_pairs(tier))} shape pairs, chunk {chunk}/{nchunks}"
        res.encoded += [enc(hm.StepHash.from_inp), enc(hm._update_file_hashes), enc(hm.HashWords.update)]
        pairs = _pairs(tier)[chunk::nchunks]
        injectivity(res, "inp", pairs, maxlen, f"O13.1.{chunk}")
        res.nontrivial = len(res.queries)
        # reachability twin: equal configurations do produce equal streams
        A = hs.Config("A", 1, ("s",), 0, False, maxlen)
        B = hs.Config("B", 1, ("s",), 0, False, maxlen)
        pa, pb = explore_stream(A), explore_stream(B)
        s = z3.Solver()
        for c in A.cons + B.cons + A.strict + B.strict + pa[0][0] + pb[0][0]:
            s.add(c)
        s.add(hs.bz(hs.stream_eq(pa[0][1], pb[0][1], s.add)))
        t0 = time.time()
        res.twin("equal streams are reachable (for equal configurations)", str(s.check()), time.time() - t0)
        return res

    return fn


def o13_sens(tier):
    """Sensitivity twin: without 'known => mode != 0' the encoding is NOT injective (crafted digest)."""
    res = ObResult()
    res.bounds = "shapes (1 file) vs (0 files, 2 undefined...) relaxed validity"
    t0 = time.time()
    # one known file whose digest imitates word boundaries vs. two unknown files
    n = injectivity(res, "out", [((("k",), (), 0, False), (("u", "u"), (), 0, False))], 6, "O13.s", strict=False, expect="sat")
    res.twin("relaxed validity (known file with mode 0 allowed) admits a collision", "sat" if n else "unsat", time.time() - t0)
    res.nontrivial = 1
    return res


def _same_cells(a, b):
    if len(a.cells) != len(b.cells):
        return False
    for (ga, ca), (gb, cb) in zip(a.cells, b.cells):
        if isinstance(ga, bool) != isinstance(gb, bool):
            return False
        if isinstance(ga, bool):
            if ga != gb:
                return False
        elif not ga.eq(gb):
            return False
        if not ca.eq(cb):
            return False
    return True


REPLAY_ORDER = '''
import itertools
from stepup.core.hash import FileHash, StepHash
cfg, which = {cfg!r}, {which!r}
def digest(files_order, env_order, ovr_order):
    inp = {{p: FileHash(*cfg["files"][p][:2], 0.0, cfg["files"][p][2], 0) for p in files_order}}
    if which == "out":
        return StepHash(b"x" * 32).with_out_hashes(inp).out_digest
    env = {{k: cfg["env"][k] for k in env_order}}
    ovr = {{k: cfg["ovr"][k] for k in ovr_order}}
    return StepHash.from_inp(cfg["label"], inp, env, explained=False, shell=cfg["shell"], env_overrides=ovr).inp_digest
seen = set()
for fo in itertools.permutations(cfg["files"]):
    for eo in itertools.permutations(cfg["env"]):
        for oo in itertools.permutations(cfg["ovr"]):
            seen.add(digest(fo, eo, oo))
print("configuration", cfg, "distinct digests over all dict orders:", len(seen))
sys.exit(1 if len(seen) > 1 else 0)
'''


def _order_violation(res, m, cfg, order, which):
    conf = model_config(m, cfg)
    rp = write_replay("C13", "O13.2", f"order {which} {conf}", REPLAY_ORDER.format(cfg=conf, which=which))
    ok, out = run_replay(rp)
    if ok:
        if not any(v.key == f"O13.2:order:{which}" for v in res.violations):
            res.violations.append(Violation(f"O13.2:order:{which}", f"the {which} digest depends on the order in which ingredients are supplied", conf, rp))
    else:
        res.inconclusive.append(f"order-dependence model does not reproduce: {out[-300:]}")


def o13_order(tier):
    """Order independence: the same ingredients supplied in any dict order give the same stream."""
    from stepup.core import hash as hm

    res = ObResult()
    maxlen = 6 if tier == "quick" else 8
    res.bounds = f"2 files, 2 env vars, 2 overrides (all permutations of each mapping), strings <= {maxlen}"
    res.encoded += [enc(hm.StepHash.from_inp), enc(hm._update_file_hashes)]
    cfg = hs.Config("A", 2, ("s", "n") , 0, False, maxlen)
    cfg2 = hs.Config("A", 2, ("s", "s"), 2, True, maxlen)
    for c in (cfg, cfg2):
        base = explore_stream(c, "inp", order=(0, 0, 0))
        for order in [(1, 0, 0), (0, 1, 0), (0, 0, 1), (1, 1, 1)]:
            other = explore_stream(c, "inp", order=order)
            for (pc1, s1), (pc2, s2) in itertools.product(base, other):
                s = z3.Solver()
                s.set("timeout", 120000)
                for x in c.cons + pc1 + pc2:
                    s.add(x)
                t0 = time.time()
                if s.check() == z3.unsat:
                    # the two sort orders cannot both be taken for the same ingredients
                    res.q(f"orders {order}: path conditions exclude each other", "unsat", time.time() - t0)
                    continue
                if _same_cells(s1, s2):
                    # the real code emitted literally the same words in the same order
                    res.q(f"stream independent of dict order {order} (identical word sequence)", "unsat", time.time() - t0)
                    continue
                s.add(z3.Not(hs.bz(hs.stream_eq(s1, s2, s.add))))
                r = str(s.check())
                res.q(f"stream independent of dict order {order}", r, time.time() - t0)
                if r == "sat":
                    _order_violation(res, s.model(), c, order, "inp")
        s = z3.Solver()
        for x in c.cons + base[0][0]:
            s.add(x)
        t0 = time.time()
        res.twin("a sort order is feasible", str(s.check()), time.time() - t0)
    # outputs
    co = hs.Config("A", 2, (), 0, False, maxlen)
    b0 = explore_stream(co, "out", order=(0, 0, 0))
    b1 = explore_stream(co, "out", order=(1, 0, 0))
    for (pc1, s1), (pc2, s2) in itertools.product(b0, b1):
        s = z3.Solver()
        for x in co.cons + pc1 + pc2:
            s.add(x)
        t0 = time.time()
        if s.check() == z3.unsat or _same_cells(s1, s2):
            res.q("output stream independent of dict order (excluded orders / identical word sequence)", "unsat", time.time() - t0)
            continue
        s.add(z3.Not(hs.bz(hs.stream_eq(s1, s2, s.add))))
        r = str(s.check())
        res.q("output stream independent of dict order", r, time.time() - t0)
        if r == "sat":
            _order_violation(res, s.model(), co, (1, 0, 0), "out")
    res.nontrivial = len(res.queries)
    return res


def o13_out(tier):
    from stepup.core import hash as hm

    res = ObResult()
    maxlen = 6 if tier == "quick" else 8
    res.bounds = f"<= 2 (3 thorough) output files, paths <= {maxlen} bytes"
    res.encoded += [enc(hm.StepHash.with_out_hashes), enc(hm._update_file_hashes)]
    nmax = 2 if tier == "quick" else 3
    shapes_o = [(fk, (), 0, False) for n in range(nmax + 1) for fk in itertools.combinations_with_replacement("ku", n)]
    pairs = [(a, b) for i, a in enumerate(shapes_o) for b in shapes_o[i:]]
    injectivity(res, "out", pairs, maxlen, "O13.3")
    res.nontrivial = len(res.queries)
    A = hs.Config("A", 1, (), 0, False, maxlen)
    pa = explore_stream(A, "out")
    s = z3.Solver()
    for c in A.cons + A.strict + pa[0][0]:
        s.add(c)
    s.add(pa[0][1].length() > 40)
    t0 = time.time()
    res.twin("an output stream is produced", str(s.check()), time.time() - t0)
    return res


def o13_refresh(tier):
    from stepup.core import hash as hm

    res = ObResult()
    res.encoded.append(enc(hm.FileHash.refreshed))
    pre = "0 <= d_mode <= 2 and 0 <= d_size <= 2 and 0 <= d_mtime <= 2 and 0 <= d_ino <= 2 and 0 <= d_dig <= 2"
    res.bounds = pre
    xh.run_condition(res, "C13", "O13.4", "harness.c13", "refreshed_contract", pre, 120 if tier == "quick" else 600, what="FileHash.refreshed: a differing stat field forces a re-hash; result != self iff digest/mode/size differ; vanished => unknown")
    xh.run_condition(res, "C13", "O13.4", "harness.c13", "compute_inp_contract", pre, 120 if tier == "quick" else 600, what="compute_inp_hashes reports exactly the inputs whose digest/mode/size changed")
    res.nontrivial = 2
    return res


NCHUNK = 15
OBLIGATIONS = [Ob(f"O13.1.{k}", mk_inj(k, NCHUNK), f"input pre-image injective (shape pairs {k}/{NCHUNK})", weight=5, timeout={"quick": 1500, "thorough": 5400}) for k in range(NCHUNK)]
OBLIGATIONS += [
    Ob("O13.2", o13_order, "digest independent of ingredient order", weight=3),
    Ob("O13.3", o13_out, "output pre-image injective", weight=3),
    Ob("O13.s", o13_sens, "sensitivity twin: relaxed FileHash validity admits a collision", weight=2),
    Ob("O13.4", o13_refresh, "stat shortcut of FileHash.refreshed / compute_inp_hashes", weight=2),
]
