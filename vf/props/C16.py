"""C16 - remote calls are answered exactly once and correctly paired (framing, pairing, classes)."""

from __future__ import annotations

import time

import z3

from vf import xh
from vf.runner import Ob, ObResult, Violation, enc, run_replay, write_replay
from vf.symsql.executor import Explorer

CLAIM = (
    "C16: the frame header round-trips for every 64-bit call id and every body (bit-vector "
    "encoding of the real _encode_message/_decode_header executed on byte proxies); the blocking "
    "reader reassembles messages under any fragmentation with unbounded sizes (slice domain, "
    "CrossHair); responses are paired by id; failures come back as the same UsageError subclass or "
    "RPCError; only @allow_rpc procedures run."
)
OUTSIDE = [
    "real sockets / asyncio scheduling, concurrency of in-flight calls, server survival under disconnects",
    "pickle payloads (C library)",
    "more than 2 messages / 4 fragments per stream, more than 2 pending calls",
]
ASSUMPTIONS = [
    "int.to_bytes/int.from_bytes (stdlib) are big-endian inverses: modelled as bit-vector extract/concat",
    "recv() returns consecutive non-empty chunks of the stream and b'' once the peer is gone",
]


class ByteList:
    """bytes-like with concrete length whose elements are ints or z3 BitVec(8) terms."""

    def __init__(self, items):
        self.items = list(items)

    def __len__(self):
        return len(self.items)

    def __add__(self, other):
        if isinstance(other, ByteList):
            return ByteList(self.items + other.items)
        if isinstance(other, (bytes, bytearray)):
            return ByteList(self.items + list(other))
        return NotImplemented

    def __radd__(self, other):
        if isinstance(other, (bytes, bytearray)):
            return ByteList(list(other) + self.items)
        return NotImplemented

    def __getitem__(self, idx):
        if isinstance(idx, slice):
            return ByteList(self.items[idx])
        return self.items[idx]

    def term(self):
        parts = [z3.BitVecVal(x, 8) if isinstance(x, int) else x for x in self.items]
        if not parts:
            return None
        return parts[0] if len(parts) == 1 else z3.Concat(*parts)


class BVInt:
    run = None

    def __init__(self, term, width):
        self.term = term
        self.width = width

    def to_bytes(self, length=1, byteorder="big", *, signed=False):
        if byteorder != "big" or signed:
            raise TypeError("unexpected to_bytes arguments")
        if length * 8 != self.width:
            raise OverflowError("width mismatch")
        return ByteList([z3.Extract(self.width - 1 - 8 * k, self.width - 8 - 8 * k, self.term) for k in range(length)])

    def _cmp(self, other, op):
        w = self.width
        o = other.term if isinstance(other, BVInt) else z3.BitVecVal(other, w) if 0 <= other < 2**w else None
        if o is None:
            # comparison against a constant outside the width
            return {"gt": other < 0, "lt": other >= 2**w, "ge": other < 0, "le": other >= 2**w, "eq": False}[op]
        f = {"gt": z3.UGT, "lt": z3.ULT, "ge": z3.UGE, "le": z3.ULE, "eq": lambda a, b: a == b}[op]
        return BVInt.run.decide_bool(f(self.term, o), f"int {op}")

    def __gt__(self, o):
        return self._cmp(o, "gt")

    def __lt__(self, o):
        return self._cmp(o, "lt")

    def __ge__(self, o):
        return self._cmp(o, "ge")

    def __le__(self, o):
        return self._cmp(o, "le")

    def __eq__(self, o):
        return self._cmp(o, "eq")

    def __hash__(self):
        return 0

    def __format__(self, spec):
        return "<symbolic>"


class IntShim(int):
    @classmethod
    def from_bytes(cls, b, byteorder="big", *, signed=False):
        if isinstance(b, ByteList):
            if byteorder != "big" or signed:
                raise TypeError("unexpected from_bytes arguments")
            if all(isinstance(x, int) for x in b.items):
                return int.from_bytes(bytes(b.items), "big")
            return BVInt(b.term(), 8 * len(b))
        return int.from_bytes(b, byteorder, signed=signed)


REPLAY_HDR = '''
from stepup.core import rpc
from stepup.core.exceptions import RPCError
call_id, body = {call_id!r}, {body!r}
data = rpc._encode_message(call_id, body)
try:
    got = rpc._decode_header(data[:rpc.HEADER_SIZE])
except RPCError as exc:
    got = "RPCError"
want = (call_id, 0 if body is None else len(body))
rest = data[rpc.HEADER_SIZE:]
print("decoded", got, "expected", want, "rest", rest)
sys.exit(1 if (got != want or rest != (body or b"")) else 0)
'''

REPLAY_RAW = '''
from stepup.core import rpc
from stepup.core.exceptions import RPCError
header = {header!r}
size = int.from_bytes(header[8:], "big")
try:
    got = rpc._decode_header(header)
    raised = False
except RPCError:
    raised = True
print("size", size, "raised", raised)
ok = (raised == (size > 2**32)) and (raised or got == (int.from_bytes(header[:8], "big"), size))
sys.exit(0 if ok else 1)
'''


def o16_header(tier) -> ObResult:
    import stepup.core.rpc as rpc

    res = ObResult()
    nmax = 3 if tier == "quick" else 6
    res.bounds = f"call ids 0 <= id < 2**64 (all), body None or 0..{nmax} arbitrary bytes; raw headers: all 16-byte strings"
    res.encoded += [enc(rpc._encode_message), enc(rpc._decode_header)]
    saved = rpc.__dict__.get("int")
    rpc.int = IntShim
    try:
        bodies = [None] + list(range(nmax + 1))
        for n in bodies:
            cid = z3.BitVec("call_id", 64)
            body = None if n is None else ByteList([z3.BitVec(f"body{k}", 8) for k in range(n)])
            outcomes = []

            def bodyfn(run, body=body, cid=cid):
                BVInt.run = run

                def thunk():
                    data = rpc._encode_message(BVInt(cid, 64), body)
                    hdr = data[: rpc.HEADER_SIZE]
                    rest = data[rpc.HEADER_SIZE :]
                    return rpc._decode_header(hdr), rest, len(data)

                return None, thunk

            def on_path(pr, n=n, body=body, cid=cid):
                run = pr.run
                want_size = 0 if n is None else n
                if pr.outcome == "raise":
                    v, m, dt = run.query()
                    res.q(f"encode/decode body={n}: no exception path", "sat" if v == "sat" else v, dt, expect="unsat", note=repr(pr.value))
                    if v == "sat":
                        _hdr_violation(res, m, cid, body, f"raises {type(pr.value).__name__}")
                    return
                (got_id, got_size), rest, total = pr.value
                bad = []
                if isinstance(got_id, BVInt):
                    bad.append(got_id.term != cid)
                elif True:
                    bad.append(z3.BitVecVal(got_id, 64) != cid)
                if isinstance(got_size, BVInt):
                    bad.append(got_size.term != want_size)
                else:
                    bad.append(z3.BoolVal(got_size != want_size))
                bad.append(z3.BoolVal(total != 16 + want_size))
                if body is not None:
                    if len(rest) != len(body):
                        bad.append(z3.BoolVal(True))
                    else:
                        for a, b in zip(rest.items, body.items):
                            bad.append(a != b if not (isinstance(a, int) and isinstance(b, int)) else z3.BoolVal(a != b))
                v, m, dt = run.query(z3.Or(*bad))
                res.q(f"decode(encode(id, body of {n} bytes)) == (id, {want_size}) and payload intact", v, dt)
                if v == "sat":
                    _hdr_violation(res, m, cid, body, "round trip differs")

            Explorer(max_paths=20).explore(bodyfn, on_path)
        # None and b"" frame identically
        a = rpc._encode_message(5, None)
        b = rpc._encode_message(5, b"")
        res.q("None and b'' produce the same frame (sentinel)", "unsat" if a == b else "sat", 0.0)
        # arbitrary headers from an untrusted peer
        hb = [z3.BitVec(f"h{k}", 8) for k in range(16)]
        size_term = z3.Concat(*hb[8:])
        id_term = z3.Concat(*hb[:8])
        seen = {"raise": 0, "return": 0}

        def bodyfn2(run):
            BVInt.run = run
            return None, lambda: rpc._decode_header(ByteList(hb))

        def on_path2(pr):
            run = pr.run
            too_big = z3.UGT(size_term, z3.BitVecVal(rpc.MAX_BODY_SIZE, 64))
            if pr.outcome == "raise":
                seen["raise"] += 1
                from stepup.core.exceptions import RPCError

                cond = z3.Not(too_big) if isinstance(pr.value, RPCError) else z3.BoolVal(True)
                v, m, dt = run.query(cond)
                res.q("raw header: RPCError only when announced size > MAX_BODY_SIZE", v, dt)
                if v == "sat":
                    _raw_violation(res, m, hb)
            else:
                seen["return"] += 1
                cid, size = pr.value
                bad = [too_big]
                bad.append(cid.term != id_term if isinstance(cid, BVInt) else z3.BoolVal(True))
                bad.append(size.term != size_term if isinstance(size, BVInt) else z3.BoolVal(True))
                v, m, dt = run.query(z3.Or(*bad))
                res.q("raw header: returns (first 8 bytes, last 8 bytes) big-endian and size <= MAX_BODY_SIZE", v, dt)
                if v == "sat":
                    _raw_violation(res, m, hb)

        Explorer(max_paths=20).explore(bodyfn2, on_path2)
        res.twin("raw header: the RPCError path is reachable", "sat" if seen["raise"] else "unsat", 0.0)
        res.twin("raw header: the accepting path is reachable", "sat" if seen["return"] else "unsat", 0.0)
    finally:
        if saved is None:
            del rpc.int
        else:
            rpc.int = saved
    res.nontrivial = len(res.queries) - 1
    return res


def _hdr_violation(res, m, cid, body, what):
    call_id = m.eval(cid, model_completion=True).as_long()
    b = None if body is None else bytes(m.eval(x, model_completion=True).as_long() for x in body.items)
    rp = write_replay("C16", "O16.1a", f"hdr {call_id} {b!r}", REPLAY_HDR.format(call_id=call_id, body=b))
    ok, out = run_replay(rp)
    if ok:
        res.violations.append(Violation("O16.1a:roundtrip", f"frame header {what}: id={call_id} body={b!r}", {"call_id": call_id, "body": repr(b)}, rp))
    else:
        res.inconclusive.append(f"header model id={call_id} body={b!r} does not reproduce: {out[-200:]}")


def _raw_violation(res, m, hb):
    header = bytes(m.eval(x, model_completion=True).as_long() for x in hb)
    rp = write_replay("C16", "O16.1a", f"raw {header!r}", REPLAY_RAW.format(header=header))
    ok, out = run_replay(rp)
    if ok:
        res.violations.append(Violation("O16.1a:raw", f"_decode_header misjudges header {header!r}", {"header": repr(header)}, rp))
    else:
        res.inconclusive.append(f"raw header model {header!r} does not reproduce: {out[-200:]}")


def _xh(cond, pre_q, pre_t, what, oid, tq=240, tt=1200):
    def fn(tier):
        import stepup.core.rpc as rpc

        res = ObResult()
        pre = pre_q if tier == "quick" else pre_t
        res.bounds = pre
        res.encoded += [enc(rpc._SocketReader.readexactly), enc(rpc._recv_socket_message), enc(rpc.SocketAsyncRPCClient._recv_loop), enc(rpc.RPCServerConnection._send_loop), enc(rpc._call_procedure), enc(rpc.RemoteFailure.to_exception)]
        xh.run_condition(res, "C16", oid, "harness.c16", cond, pre, tq if tier == "quick" else tt, what=what)
        res.nontrivial = 1
        return res

    return fn


PRE_REASM = "id0 >= 0 and id1 >= 0 and s0 >= 0 and s1 >= 0 and f0 >= 1 and f1 >= 1 and f2 >= 1 and f3 >= 1 and 0 <= nfrag <= {n}"
OBLIGATIONS = [
    Ob("O16.1a", o16_header, "frame header round trip for all 64-bit ids; raw header acceptance", weight=2),
    Ob(
        "O16.1b",
        _xh("reassembly", PRE_REASM.format(n=3), PRE_REASM.format(n=4), "two messages of unbounded size reassembled under any fragmentation / cut", "O16.1b", 400, 2400),
        "reassembly under any fragmentation (slice domain, unbounded sizes)",
        weight=5,
        timeout={"quick": 1500, "thorough": 5400},
    ),
    Ob(
        "O16.2a",
        _xh("pairing_async", "0 <= p0 <= 1 and 0 <= p1 <= 1 and 0 <= r0 <= 2 and 0 <= r1 <= 2 and r2 == 0 and 0 <= nresp <= 2", "0 <= p0 <= 2 and 0 <= p1 <= 2 and 0 <= r0 <= 3 and 0 <= r1 <= 3 and 0 <= r2 <= 3 and 0 <= nresp <= 3", "async client resolves futures by id, once", "O16.2a", 400, 3000),
        "response pairing in SocketAsyncRPCClient._recv_loop",
        weight=4,
        timeout={"quick": 1200, "thorough": 3600},
    ),
    Ob("O16.2b", _xh("pairing_sync", "0 <= expected <= 3 and 0 <= got <= 3", "0 <= expected <= 6 and 0 <= got <= 6", "sync client rejects a response with another id", "O16.2b", 60, 600), "response pairing in SocketSyncRPCClient._recv_response"),
    Ob("O16.2c", _xh("send_loop_pairing", "0 <= i0 <= 3 and 0 <= i1 <= 3 and 0 <= enc_fail <= 2", "0 <= i0 and 0 <= i1 and 0 <= enc_fail <= 2", "server replies once per completed call with its own id", "O16.2c", 120, 300), "reply pairing in RPCServerConnection._send_loop", weight=2),
    Ob("O16.1c", _xh("stream_recv", "id0 >= 0 and s0 >= 0 and avail >= 0", "id0 >= 0 and s0 >= 0 and avail >= 0", "asyncio reader: a peer vanishing at any byte offset yields None, never an exception", "O16.1c", 120, 300), "_recv_stream_message under a disconnect at any offset (unbounded sizes)", weight=2),
    Ob("O16.3b", _xh("capture_failure", "0 <= kind < 8", "0 <= kind < 8", "_call_and_capture_failure turns every way a procedure can end into a reply", "O16.3b", 120, 300), "every started call is answered (_call_and_capture_failure never raises)", weight=2),
    Ob("O16.3", _xh("failure_class", "0 <= kind < 16", "0 <= kind < 16", "failure classes cross the wire as UsageError subclass or RPCError", "O16.3", 120, 300), "failure classes", weight=2),
    Ob("O16.4", _xh("exposure", "0 <= name_i < 9 and 0 <= nargs < 3", "0 <= name_i < 9 and 0 <= nargs < 3", "only @allow_rpc procedures can be invoked", "O16.4", 120, 300), "exposure via allow_rpc", weight=2),
]
