"""E-Z3 byte streams: run the real StepHash.from_inp / with_out_hashes / _update_file_hashes /
HashWords.update with SHA-256 replaced by a recorder and with *word proxies* that carry symbolic
byte strings.  The recorder's concatenation is the exact pre-image the real code feeds to SHA-256.
``sorted()`` over proxies forks on the (symbolic) lexicographic comparison through the fork
executor, so every order the real code can produce is explored with its path condition.

Byte strings are *cell lists*: ``[(guard, BitVec8)]`` -- the string is the concatenation of the
bytes whose guard holds (a symbolic string of length <= N is ``guard_i = (i < len)``).  Equality
of two recorded streams is a dynamic program over the two cell lists whose cells are fresh
Booleans (bit-vector + propositional only).  A design-round probe used z3's sequence theory
instead; on this code it returned ``unknown`` after 120 s for configurations with two symbolic
strings, whereas the cell encoding answers in well under a second.
"""

from __future__ import annotations

import itertools

import z3

_counter = itertools.count()


def _bv(x):
    return z3.BitVecVal(x, 8)


def bAnd(*xs):
    out = []
    for x in xs:
        if x is True:
            continue
        if x is False:
            return False
        out.append(x)
    if not out:
        return True
    return out[0] if len(out) == 1 else z3.And(*out)


def bOr(*xs):
    out = []
    for x in xs:
        if x is False:
            continue
        if x is True:
            return True
        out.append(x)
    if not out:
        return False
    return out[0] if len(out) == 1 else z3.Or(*out)


def bNot(x):
    return (not x) if isinstance(x, bool) else z3.Not(x)


def bz(x):
    return z3.BoolVal(x) if isinstance(x, bool) else x


def bIte(c, a, b):
    if c is True:
        return a
    if c is False:
        return b
    return z3.If(c, bz(a), bz(b))


class Cells:
    """A symbolic byte string as a list of (guard, byte) cells."""

    __slots__ = ("cells",)

    def __init__(self, cells):
        self.cells = list(cells)

    @staticmethod
    def const(b: bytes) -> "Cells":
        return Cells([(True, _bv(x)) for x in b])

    def __add__(self, other: "Cells") -> "Cells":
        return Cells(self.cells + other.cells)

    def length(self):
        return z3.Sum([z3.If(bz(g), 1, 0) for g, _ in self.cells]) if self.cells else z3.IntVal(0)

    def eval(self, m) -> bytes:
        out = []
        for g, c in self.cells:
            gv = g if isinstance(g, bool) else z3.is_true(m.eval(g, model_completion=True))
            if gv:
                out.append(m.eval(c, model_completion=True).as_long())
        return bytes(out)


def _ceq(a, b):
    if z3.is_bv_value(a) and z3.is_bv_value(b):
        return a.as_long() == b.as_long()
    return a == b


def dense_eq(a: Cells, b: Cells):
    """Equality of two *dense* cell lists (guards are prefixes)."""
    n = max(len(a.cells), len(b.cells))
    conj = []
    for i in range(n):
        ga, ca = a.cells[i] if i < len(a.cells) else (False, None)
        gb, cb = b.cells[i] if i < len(b.cells) else (False, None)
        if ga is False and gb is False:
            continue
        if ca is None:
            conj.append(bNot(gb))
        elif cb is None:
            conj.append(bNot(ga))
        else:
            conj.append(bz(ga) == bz(gb) if not (isinstance(ga, bool) and isinstance(gb, bool)) else ga == gb)
            conj.append(bOr(bNot(ga), _ceq(ca, cb)))
    return bAnd(*conj)


def dense_lt(a: Cells, b: Cells):
    """a < b bytewise-lexicographically, both dense."""
    n = max(len(a.cells), len(b.cells))
    acc = False
    for i in range(n - 1, -1, -1):
        ga, ca = a.cells[i] if i < len(a.cells) else (False, _bv(0))
        gb, cb = b.cells[i] if i < len(b.cells) else (False, _bv(0))
        both = bOr(z3.ULT(ca, cb), bAnd(_ceq(ca, cb), acc))
        acc = bIte(bNot(ga), gb, bIte(bNot(gb), False, both))
    return acc


def stream_eq(a: Cells, b: Cells, add):
    """Equality of two sparse cell lists by dynamic programming; `add(constraint)` receives the
    definitions of the fresh DP cells.  Returns a Boolean term."""
    P, S = a.cells, b.cells
    nP, nS = len(P), len(S)
    M = [[None] * (nS + 1) for _ in range(nP + 1)]
    M[nP][nS] = True
    for j in range(nS - 1, -1, -1):
        M[nP][j] = bAnd(bNot(S[j][0]), M[nP][j + 1])
    for i in range(nP - 1, -1, -1):
        M[i][nS] = bAnd(bNot(P[i][0]), M[i + 1][nS])
    k = next(_counter)
    for i in range(nP - 1, -1, -1):
        pg, pc = P[i]
        for j in range(nS - 1, -1, -1):
            sg, sc = S[j]
            both = bAnd(_ceq(pc, sc), M[i + 1][j + 1])
            e = bIte(pg, bIte(sg, both, M[i][j + 1]), M[i + 1][j])
            if not isinstance(e, bool):
                v = z3.Bool(f"M{k}_{i}_{j}")
                add(v == e)
                e = v
            M[i][j] = e
    return M[0][0]


class Recorder:
    """Stands for hashlib.sha256(): records what is fed to it."""

    def __init__(self):
        self.parts = []

    def update(self, data):
        if isinstance(data, SymBytes):
            self.parts.append(data.term)
        elif isinstance(data, (bytes, bytearray)):
            self.parts.append(Cells.const(bytes(data)))
        else:
            raise TypeError(f"recorder fed with {type(data).__name__}")

    def digest(self):
        out = Cells([])
        for p in self.parts:
            out = out + p
        return Digest(out)


class Digest:
    """Opaque SHA-256 result: an injective function of the recorded stream (assumption)."""

    def __init__(self, stream: Cells):
        self.stream = stream


class SymBytes(bytes):
    def __new__(cls, term: Cells):
        obj = super().__new__(cls, b"")
        obj.term = term
        return obj


class SymStr(str):
    """A symbolic NUL-free string, represented by its UTF-8 bytes (byte order == code point order)."""

    MAXLEN = 6
    run = None  # fork executor Run, set by the harness

    def __new__(cls, name, maxlen=None):
        obj = super().__new__(cls, f"\x00sym{next(_counter)}:{name}")
        obj.maxlen = maxlen or cls.MAXLEN
        obj.len = z3.Int(f"{name}.len")
        obj.term = Cells([(obj.len > i, z3.BitVec(f"{name}[{i}]", 8)) for i in range(obj.maxlen)])
        obj.name = name
        return obj

    def constraints(self):
        cs = [self.len >= 0, self.len <= self.maxlen]
        for g, c in self.term.cells:
            cs.append(z3.Implies(g, c != 0))
        return cs

    def encode(self, *a, **k):
        return SymBytes(self.term)

    def _term_of(self, other):
        if isinstance(other, SymStr):
            return other.term
        if isinstance(other, str):
            return Cells.const(other.encode())
        return None

    def __eq__(self, other):
        if other is self:
            return True
        t = self._term_of(other)
        if t is None:
            return NotImplemented
        return SymStr.run.decide_bool(bz(dense_eq(self.term, t)), f"{self.name} == other")

    def __ne__(self, other):
        r = self.__eq__(other)
        return r if r is NotImplemented else not r

    def __hash__(self):
        return str.__hash__(self)

    def __lt__(self, other):
        t = self._term_of(other)
        if t is None:
            return NotImplemented
        return SymStr.run.decide_bool(bz(dense_lt(self.term, t)), f"{self.name} < other")

    def __gt__(self, other):
        t = self._term_of(other)
        if t is None:
            return NotImplemented
        return SymStr.run.decide_bool(bz(dense_lt(t, self.term)), f"{self.name} > other")

    def __le__(self, other):
        return not self.__gt__(other)

    def __ge__(self, other):
        return not self.__lt__(other)


class SymInt:
    """A symbolic 64-bit unsigned integer, only ever asked for its 8-byte big-endian form."""

    def __init__(self, name):
        self.term = z3.BitVec(name, 64)
        self.name = name

    def to_bytes(self, length=1, byteorder="big", *, signed=False):
        if length != 8 or byteorder != "big" or signed:
            raise TypeError(f"unexpected to_bytes({length}, {byteorder!r})")
        return SymBytes(Cells([(True, z3.Extract(63 - 8 * k, 56 - 8 * k, self.term)) for k in range(8)]))


def make_filehash(tag, known=True):
    """A symbolic FileHash obeying the documented validity predicate.

    known=False is exactly FileHash.unknown(): digest b"u", mode = size = 0.
    known=True: arbitrary 32-byte digest; the strict predicate adds mode != 0 (st_mode of an
    existing file carries its file-type bits)."""
    from stepup.core.hash import FileHash

    mode = SymInt(f"{tag}.mode")
    size = SymInt(f"{tag}.size")
    cons, strict = [], []
    if known:
        digest = Cells([(True, z3.BitVec(f"{tag}.digest[{i}]", 8)) for i in range(32)])
        strict.append(mode.term != 0)
    else:
        digest = Cells.const(b"u")
        cons += [mode.term == 0, size.term == 0]
    fh = object.__new__(FileHash)
    object.__setattr__(fh, "digest", SymBytes(digest))
    object.__setattr__(fh, "mode", mode)
    object.__setattr__(fh, "size", size)
    object.__setattr__(fh, "mtime", 0.0)
    object.__setattr__(fh, "inode", 0)
    fields = {"known": known, "digest": digest, "mode": mode.term, "size": size.term}
    return fh, cons, strict, fields


class Config:
    """One symbolic step configuration of a given shape."""

    def __init__(self, tag, nfiles, env_kinds, noverrides, shell, maxlen=6):
        self.tag = tag
        self.shell = shell
        self.cons = []
        self.strict = []
        self.label = SymStr(f"{tag}.label", maxlen)
        self.cons += self.label.constraints()
        self.files = []  # (path, fields)
        self.inp_hashes = {}
        if isinstance(nfiles, int):
            nfiles = ("k",) * nfiles
        for i, fk in enumerate(nfiles):
            p = SymStr(f"{tag}.path{i}", maxlen)
            self.cons += p.constraints()
            fh, c, s, fields = make_filehash(f"{tag}.f{i}", known=(fk == "k"))
            self.cons += c
            self.strict += s
            self.files.append((p, fields))
            self.inp_hashes[p] = fh
        self.env = []
        self.env_values = {}
        for i, kind in enumerate(env_kinds):
            n = SymStr(f"{tag}.env{i}", maxlen)
            self.cons += n.constraints()
            v = None
            if kind == "s":
                v = SymStr(f"{tag}.envval{i}", maxlen)
                self.cons += v.constraints()
            self.env.append((n, v))
            self.env_values[n] = v
        self.ovr = []
        self.env_overrides = {}
        for i in range(noverrides):
            n = SymStr(f"{tag}.ovr{i}", maxlen)
            v = SymStr(f"{tag}.ovrval{i}", maxlen)
            self.cons += n.constraints() + v.constraints()
            self.ovr.append((n, v))
            self.env_overrides[n] = v
        # keys of one mapping are pairwise distinct (they are dict keys)
        for group in ([p for p, _ in self.files], [n for n, _ in self.env], [n for n, _ in self.ovr]):
            for a, b in itertools.combinations(group, 2):
                self.cons.append(bz(bNot(dense_eq(a.term, b.term))))


def _entry_eq(kind, a, b):
    if kind == "file":
        (pa, fa), (pb, fb) = a, b
        if fa["known"] != fb["known"]:
            return False
        return bAnd(dense_eq(pa.term, pb.term), dense_eq(fa["digest"], fb["digest"]), fa["mode"] == fb["mode"], fa["size"] == fb["size"])
    (na, va), (nb, vb) = a, b
    if (va is None) != (vb is None):
        return False
    if va is None:
        return dense_eq(na.term, nb.term)
    return bAnd(dense_eq(na.term, nb.term), dense_eq(va.term, vb.term))


def _maps_equal(kind, A, B):
    if len(A) != len(B):
        return False
    conj = []
    for a in A:
        conj.append(bOr(*[_entry_eq(kind, a, b) for b in B]))
    for b in B:
        conj.append(bOr(*[_entry_eq(kind, a, b) for a in A]))
    return bAnd(*conj)


def configs_equal(a: Config, b: Config, inp=True):
    parts = []
    if inp:
        if a.shell != b.shell:
            return z3.BoolVal(False)
        parts.append(dense_eq(a.label.term, b.label.term))
        parts.append(_maps_equal("env", a.env, b.env))
        parts.append(_maps_equal("env", a.ovr, b.ovr))
    parts.append(_maps_equal("file", a.files, b.files))
    return bz(bAnd(*parts))


def patched_hashwords():
    """Context manager: stepup.core.hash.HashWords -> subclass whose _hash is a Recorder."""
    import contextlib

    import stepup.core.hash as hm

    real = hm.HashWords

    class RecHashWords(real):
        def __init__(self):
            object.__setattr__(self, "_hash", Recorder())

    @contextlib.contextmanager
    def cm():
        hm.HashWords = RecHashWords
        try:
            yield
        finally:
            hm.HashWords = real

    return cm()
