"""E-Z3 byte streams: run the real StepHash.from_inp / with_out_hashes / _update_file_hashes /
HashWords.update with SHA-256 replaced by a recorder and with *word proxies* that carry z3
``Seq(BitVec 8)`` terms.  The recorder's concatenation is the exact pre-image the real code feeds
to SHA-256.  ``sorted()`` over proxies forks on the (symbolic) lexicographic comparison through
the fork executor, so every order the real code can produce is explored with its path condition.
"""

from __future__ import annotations

import itertools

import z3

BV8 = z3.BitVecSort(8)
SEQ = z3.SeqSort(BV8)
_counter = itertools.count()


def const_seq(b: bytes):
    if len(b) == 0:
        return z3.Empty(SEQ)
    units = [z3.Unit(z3.BitVecVal(x, 8)) for x in b]
    return units[0] if len(units) == 1 else z3.Concat(*units)


def concat(parts):
    parts = [p for p in parts]
    if not parts:
        return z3.Empty(SEQ)
    return parts[0] if len(parts) == 1 else z3.Concat(*parts)


def lex_lt(a, b, maxlen):
    """a < b bytewise-lexicographically, for sequences of length <= maxlen."""
    la, lb = z3.Length(a), z3.Length(b)
    alts = []
    eq_prefix = z3.BoolVal(True)
    for i in range(maxlen + 1):
        # first difference at position i
        a_has, b_has = la > i, lb > i
        alts.append(z3.And(eq_prefix, z3.Not(a_has), b_has))
        if i < maxlen:
            alts.append(z3.And(eq_prefix, a_has, b_has, z3.ULT(a[i], b[i])))
            eq_prefix = z3.And(eq_prefix, a_has, b_has, a[i] == b[i])
    return z3.Or(*alts)


class Recorder:
    """Stands for hashlib.sha256(): records what is fed to it."""

    def __init__(self):
        self.parts = []

    def update(self, data):
        if isinstance(data, SymBytes):
            self.parts.append(data.term)
        elif isinstance(data, (bytes, bytearray)):
            self.parts.append(const_seq(bytes(data)))
        else:
            raise TypeError(f"recorder fed with {type(data).__name__}")

    def digest(self):
        return Digest(concat(self.parts))


class Digest:
    """Opaque SHA-256 result: an injective function of the recorded stream (assumption)."""

    def __init__(self, stream):
        self.stream = stream


class SymBytes(bytes):
    def __new__(cls, term):
        obj = super().__new__(cls, b"")
        obj.term = term
        return obj


class SymStr(str):
    """A symbolic NUL-free string, represented by its UTF-8 bytes (byte order == code point order)."""

    MAXLEN = 6
    run = None  # fork executor Run, set by the harness

    def __new__(cls, name, maxlen=None):
        obj = super().__new__(cls, f"\x00sym{next(_counter)}:{name}")
        obj.term = z3.Const(name, SEQ)
        obj.maxlen = maxlen or cls.MAXLEN
        obj.name = name
        return obj

    def constraints(self):
        cs = [z3.Length(self.term) <= self.maxlen]
        for i in range(self.maxlen):
            cs.append(z3.Implies(z3.Length(self.term) > i, self.term[i] != 0))
        return cs

    def encode(self, *a, **k):
        return SymBytes(self.term)

    def _term_of(self, other):
        if isinstance(other, SymStr):
            return other.term, other.maxlen
        if isinstance(other, str):
            b = other.encode()
            return const_seq(b), len(b)
        return None, None

    def __eq__(self, other):
        if other is self:
            return True
        t, _ = self._term_of(other)
        if t is None:
            return NotImplemented
        return SymStr.run.decide_bool(self.term == t, f"{self.name} == other")

    def __ne__(self, other):
        r = self.__eq__(other)
        return r if r is NotImplemented else not r

    def __hash__(self):
        return str.__hash__(self)

    def __lt__(self, other):
        t, n = self._term_of(other)
        if t is None:
            return NotImplemented
        return SymStr.run.decide_bool(lex_lt(self.term, t, max(self.maxlen, n)), f"{self.name} < other")

    def __gt__(self, other):
        t, n = self._term_of(other)
        if t is None:
            return NotImplemented
        return SymStr.run.decide_bool(lex_lt(t, self.term, max(self.maxlen, n)), f"{self.name} > other")

    def __le__(self, other):
        return not self.__gt__(other)

    def __ge__(self, other):
        return not self.__lt__(other)


class SymInt:
    """A symbolic 64-bit unsigned integer, only ever asked for its 8-byte big-endian form."""

    def __init__(self, name):
        self.term = z3.BitVec(name, 64)
        self.name = name

    def to_bytes(self, length=1, byteorder="big", *, signed=False):
        if length != 8 or byteorder != "big" or signed:
            raise TypeError(f"unexpected to_bytes({length}, {byteorder!r})")
        units = [z3.Unit(z3.Extract(63 - 8 * k, 56 - 8 * k, self.term)) for k in range(8)]
        return SymBytes(z3.Concat(*units))


def make_filehash(tag, known=True):
    """A symbolic FileHash obeying the documented validity predicate.

    known=False is exactly FileHash.unknown(): digest b"u", mode = size = 0.
    known=True: arbitrary 32-byte digest; the strict predicate adds mode != 0 (st_mode of an
    existing file carries its file-type bits)."""
    from stepup.core.hash import FileHash

    mode = SymInt(f"{tag}.mode")
    size = SymInt(f"{tag}.size")
    cons, strict = [], []
    if known:
        digest = z3.Const(f"{tag}.digest32", SEQ)
        cons.append(z3.Length(digest) == 32)
        strict.append(mode.term != 0)
    else:
        digest = const_seq(b"u")
        cons += [mode.term == 0, size.term == 0]
    fh = object.__new__(FileHash)
    object.__setattr__(fh, "digest", SymBytes(digest))
    object.__setattr__(fh, "mode", mode)
    object.__setattr__(fh, "size", size)
    object.__setattr__(fh, "mtime", 0.0)
    object.__setattr__(fh, "inode", 0)
    fields = {"known": known, "digest": digest, "mode": mode.term, "size": size.term}
    return fh, cons, strict, fields


class Config:
    """One symbolic step configuration of a given shape."""

    def __init__(self, tag, nfiles, env_kinds, noverrides, shell, maxlen=6):
        self.tag = tag
        self.shell = shell
        self.cons = []
        self.strict = []
        self.label = SymStr(f"{tag}.label", maxlen)
        self.cons += self.label.constraints()
        self.files = []  # (path, fields)
        self.inp_hashes = {}
        if isinstance(nfiles, int):
            nfiles = ("k",) * nfiles
        for i, fk in enumerate(nfiles):
            p = SymStr(f"{tag}.path{i}", maxlen)
            self.cons += p.constraints()
            fh, c, s, fields = make_filehash(f"{tag}.f{i}", known=(fk == "k"))
            self.cons += c
            self.strict += s
            self.files.append((p, fields))
            self.inp_hashes[p] = fh
        self.env = []
        self.env_values = {}
        for i, kind in enumerate(env_kinds):
            n = SymStr(f"{tag}.env{i}", maxlen)
            self.cons += n.constraints()
            v = None
            if kind == "s":
                v = SymStr(f"{tag}.envval{i}", maxlen)
                self.cons += v.constraints()
            self.env.append((n, v))
            self.env_values[n] = v
        self.ovr = []
        self.env_overrides = {}
        for i in range(noverrides):
            n = SymStr(f"{tag}.ovr{i}", maxlen)
            v = SymStr(f"{tag}.ovrval{i}", maxlen)
            self.cons += n.constraints() + v.constraints()
            self.ovr.append((n, v))
            self.env_overrides[n] = v
        # keys of one mapping are pairwise distinct (they are dict keys)
        for group in ([p for p, _ in self.files], [n for n, _ in self.env], [n for n, _ in self.ovr]):
            for a, b in itertools.combinations(group, 2):
                self.cons.append(a.term != b.term)


def _entry_eq(kind, a, b):
    if kind == "file":
        (pa, fa), (pb, fb) = a, b
        if fa["known"] != fb["known"]:
            return z3.BoolVal(False)
        return z3.And(pa.term == pb.term, fa["digest"] == fb["digest"], fa["mode"] == fb["mode"], fa["size"] == fb["size"])
    (na, va), (nb, vb) = a, b
    if (va is None) != (vb is None):
        return z3.BoolVal(False)
    if va is None:
        return na.term == nb.term
    return z3.And(na.term == nb.term, va.term == vb.term)


def _maps_equal(kind, A, B):
    if len(A) != len(B):
        return z3.BoolVal(False)
    conj = []
    for a in A:
        conj.append(z3.Or(*[_entry_eq(kind, a, b) for b in B]) if B else z3.BoolVal(False))
    for b in B:
        conj.append(z3.Or(*[_entry_eq(kind, a, b) for a in A]) if A else z3.BoolVal(False))
    return z3.And(*conj) if conj else z3.BoolVal(True)


def configs_equal(a: Config, b: Config, inp=True):
    parts = []
    if inp:
        if a.shell != b.shell:
            return z3.BoolVal(False)
        parts.append(a.label.term == b.label.term)
        parts.append(_maps_equal("env", a.env, b.env))
        parts.append(_maps_equal("env", a.ovr, b.ovr))
    parts.append(_maps_equal("file", a.files, b.files))
    return z3.And(*parts)


def patched_hashwords():
    """Context manager: stepup.core.hash.HashWords -> subclass whose _hash is a Recorder."""
    import contextlib

    import stepup.core.hash as hm

    real = hm.HashWords

    class RecHashWords(real):
        def __init__(self):
            object.__setattr__(self, "_hash", Recorder())

    @contextlib.contextmanager
    def cm():
        hm.HashWords = RecHashWords
        try:
            yield
        finally:
            hm.HashWords = real

    return cm()
