"""Pure-Python stand-in for `path.Path` (a `str` subclass: construction realises symbolic strings)
and for the C implementation of `posixpath.normpath`.

Nothing about path semantics is restated here:

* the `posixpath` functions (`join`, `split`, `splitroot`, `isabs`, `basename`, `dirname`,
  `splitext`, `abspath`, and the *pure-Python* `normpath` from the ``except ImportError`` branch)
  are extracted from the source of the live standard library and compiled into a namespace whose
  ``os`` is a small fake (``fspath`` unwraps an ``SPath``, ``getcwd`` returns the harness's cwd);
* the `path.Path` methods that `stepup.core.path` uses are the *real function objects* of the
  installed `path` package, grafted onto ``SPath`` (a plain class that holds the string).

`validate(seed)` runs the shim differentially against the real `path.Path`/`os.path`.
"""

from __future__ import annotations

import ast
import inspect
import posixpath as _real_posixpath
import types

import path as _real_path_pkg

CWD = "/r"  # the harness's notion of os.getcwd()


class SPath:
    """Holds a (possibly symbolic) str; behaves like path.Path for the methods grafted below."""

    __slots__ = ("_s",)

    def __init__(self, other="."):
        if other is None:
            raise TypeError("Invalid initial value for path: None")
        self._s = _s(other)

    def __fspath__(self):
        return self._s

    def __str__(self):
        return self._s

    def __repr__(self):
        return f"SPath({self._s!r})"

    def __eq__(self, other):
        return self._s == _s(other) if isinstance(other, (str, SPath)) else NotImplemented

    def __ne__(self, other):
        return self._s != _s(other) if isinstance(other, (str, SPath)) else NotImplemented

    def __hash__(self):
        return hash(self._s)

    def __len__(self):
        return len(self._s)

    def __add__(self, more):
        return SPath(self._s + _s(more))

    def __radd__(self, other):
        return SPath(_s(other) + self._s)

    def __contains__(self, item):
        return _s(item) in self._s

    def __getitem__(self, idx):
        return self._s[idx]

    def __bool__(self):
        return len(self._s) > 0

    def startswith(self, prefix, *a):
        if isinstance(prefix, tuple):
            prefix = tuple(_s(p) for p in prefix)
        else:
            prefix = _s(prefix)
        return self._s.startswith(prefix, *a)

    def endswith(self, suffix, *a):
        if isinstance(suffix, tuple):
            suffix = tuple(_s(p) for p in suffix)
        else:
            suffix = _s(suffix)
        return self._s.endswith(suffix, *a)

    @property
    def _next_class(self):
        return SPath


def _s(p):
    return p._s if isinstance(p, SPath) else p


class _FakeOS:
    sep = "/"
    curdir = "."
    pardir = ".."
    PathLike = SPath

    @staticmethod
    def fspath(p):
        return _s(p)

    @staticmethod
    def getcwd():
        return CWD


def _extract_posixpath():
    src = inspect.getsource(_real_posixpath)
    tree = ast.parse(src)
    wanted = {"_get_sep", "isabs", "join", "split", "splitroot", "basename", "dirname", "abspath", "splitext", "normcase"}
    picked = []
    for node in tree.body:
        if isinstance(node, ast.FunctionDef) and node.name in wanted:
            picked.append(node)
        if isinstance(node, ast.Try):
            for h in node.handlers:
                for sub in h.body:
                    if isinstance(sub, ast.FunctionDef) and sub.name == "normpath":
                        picked.append(sub)
    names = {n.name for n in picked}
    missing = (wanted | {"normpath"}) - names
    if missing:
        raise RuntimeError(f"cannot extract from posixpath: {sorted(missing)}")
    import genericpath

    gsrc = ast.parse(inspect.getsource(genericpath))
    for node in gsrc.body:
        if isinstance(node, ast.FunctionDef) and node.name == "_splitext":
            picked.append(node)
    mod = ast.Module(body=picked, type_ignores=[])
    ns = {
        "os": _FakeOS,
        "genericpath": types.SimpleNamespace(),
        "sep": "/",
        "curdir": ".",
        "pardir": "..",
        "extsep": ".",
        "altsep": None,
        "__name__": "vf.shims.purepath.module",
    }
    exec(compile(mod, "<posixpath extracted>", "exec"), ns)
    ns["genericpath"]._splitext = ns["_splitext"]
    ns["genericpath"]._check_arg_types = lambda *a: None
    m = types.SimpleNamespace(**{k: v for k, v in ns.items() if callable(v)})
    m.sep = "/"
    m.pardir = ".."
    m.curdir = "."
    return m


module = _extract_posixpath()
SPath.module = module

# Graft the real method objects of the installed `path` package.
_GRAFT = [
    "normpath", "isabs", "__truediv__", "__rtruediv__", "relpath", "relpathto", "absolute",
    "splitall", "_parts", "_parts_iter", "splitpath", "normcase", "dirname", "basename",
    "splitext", "stripext",
]
for _n in _GRAFT:
    _a = inspect.getattr_static(_real_path_pkg.Path, _n)
    setattr(SPath, _n, _a)
for _n in ["parent", "name", "stem", "suffix"]:
    setattr(SPath, _n, inspect.getattr_static(_real_path_pkg.Path, _n))
# The grafted methods look up `os.curdir`, `os.pardir` in the `path` package's own globals: these
# are constants of the real os module, which is fine.


class Env:
    """Harness parameters replacing the process environment."""

    def __init__(self, root="/r", here=None, cwd="/r"):
        self.vars = {"STEPUP_ROOT": root}
        if here is not None:
            self.vars["HERE"] = here
        self.cwd = cwd


def install(env: Env):
    """Monkeypatch stepup.core.path to use the shim; returns an undo function."""
    import stepup.core.path as sp

    global CWD
    saved = (sp.Path, sp.coerce_path, sp.coerce_str, sp.os, CWD)
    CWD = env.cwd

    class FakeOS(_FakeOS):
        @staticmethod
        def getenv(name, default=None):
            return env.vars.get(name, default)

        @staticmethod
        def getcwd():
            return env.cwd

    sp.Path = SPath
    sp.coerce_path = lambda arg: SPath(_s(arg))
    sp.coerce_str = _s
    sp.os = FakeOS

    def undo():
        global CWD
        sp.Path, sp.coerce_path, sp.coerce_str, sp.os, CWD = saved

    return undo


def validate(seed=0, n=300):
    """Differential run of the shim against the real path.Path / os.path; returns #cases."""
    import os
    import random

    from path import Path

    rng = random.Random(seed)
    alphabet = ["/", ".", "a", "b", "..", "./", "a/", "//"]
    cases = 0
    for _ in range(n):
        p = "".join(rng.choice(alphabet) for _ in range(rng.randint(0, 4)))
        q = "".join(rng.choice(alphabet) for _ in range(rng.randint(0, 3)))
        pairs = [
            (lambda: str(SPath(p).normpath()), lambda: str(Path(p).normpath())),
            (lambda: SPath(p).isabs(), lambda: Path(p).isabs()),
            (lambda: str(SPath(p) / q), lambda: str(Path(p) / q)),
            (lambda: str(q / SPath(p)), lambda: str(q / Path(p))),
            (lambda: str(SPath(p).parent), lambda: str(Path(p).parent)),
            (lambda: str(SPath(p).basename()), lambda: str(Path(p).basename())),
            (lambda: str(SPath(p).stem), lambda: str(Path(p).stem)),
            (lambda: str(SPath(p).suffix), lambda: str(Path(p).suffix)),
            (lambda: [str(x) for x in SPath(p).splitall()], lambda: [str(x) for x in Path(p).splitall()]),
        ]
        if q.startswith("/") and p.startswith("/"):
            pairs.append((lambda: str(SPath(p).relpath(q)), lambda: str(Path(p).relpath(q))))
        for got, want in pairs:
            try:
                g = got()
            except Exception as exc:  # noqa: BLE001
                g = type(exc).__name__
            try:
                w = want()
            except Exception as exc:  # noqa: BLE001
                w = type(exc).__name__
            cases += 1
            if g != w:
                raise AssertionError(f"purepath shim differs from path.Path on p={p!r} q={q!r}: {g!r} != {w!r}")
    # relative relpath/absolute depend on cwd: compare with the real cwd substituted
    global CWD
    old = CWD
    CWD = os.getcwd()
    try:
        for _ in range(n // 3):
            p = "".join(rng.choice(alphabet) for _ in range(rng.randint(0, 4)))
            q = "".join(rng.choice(alphabet) for _ in range(rng.randint(0, 3)))
            g = str(SPath(p).relpath(q or "."))
            w = str(Path(p).relpath(q or "."))
            cases += 1
            if g != w:
                raise AssertionError(f"purepath relpath differs on p={p!r} start={q!r}: {g!r} != {w!r}")
            if str(SPath(p).absolute()) != str(Path(p).absolute()):
                raise AssertionError(f"purepath absolute differs on {p!r}")
    finally:
        CWD = old
    return cases
