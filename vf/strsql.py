"""Evaluate a (lark-parsed, live) SQL boolean expression over ONE symbolic row whose text columns
are bounded symbolic strings (vf.z3str.SStr): the string-domain counterpart of E-SQL's pool atoms,
used where the property quantifies over all strings (C18)."""

from __future__ import annotations

import lark
import z3

from vf import z3str
from vf.pstr import PStr
from vf.z3str import And, Not, Or, SStr, Unsupported, _b


class Env:
    def __init__(self, cols, params, like_case_sensitive=True):
        self.cols = cols  # {"alias.col" | "col": value}
        self.params = list(params)
        self.pi = 0
        self.cs = like_case_sensitive

    def col(self, qual, name):
        if qual is not None and f"{qual}.{name}" in self.cols:
            return self.cols[f"{qual}.{name}"]
        if name in self.cols:
            return self.cols[name]
        raise Unsupported(f"column {qual}.{name} not bound")

    def param(self):
        v = self.params[self.pi]
        self.pi += 1
        return v


def _text(v):
    if isinstance(v, PStr):
        return v.sym
    if isinstance(v, SStr):
        return v
    if isinstance(v, str):
        return SStr.const(v)
    return None


def ev(t, env: Env):
    if isinstance(t, lark.Token):
        raise Unsupported(str(t))
    d, c = t.data, t.children
    if d == "l_num":
        return int(str(c[0]))
    if d == "l_str":
        return str(c[0])[1:-1].replace("''", "'")
    if d == "l_true":
        return 1
    if d == "l_false":
        return 0
    if d == "literal":
        return ev(c[0], env)
    if d == "p_pos":
        return env.param()
    if d == "e_col":
        return env.col(None, str(c[0]))
    if d == "e_qcol":
        return env.col(str(c[0]), str(c[1]))
    if d == "e_not":
        return Not(truth(ev(c[0], env)))
    if d == "and_expr":
        return And(*[truth(ev(x, env)) for x in c])
    if d == "or_expr":
        return Or(*[truth(ev(x, env)) for x in c])
    if d == "e_bin":
        a, op, b = ev(c[0], env), str(c[1]), ev(c[2], env)
        ta, tb = _text(a), _text(b)
        if ta is not None and tb is not None:
            if op in ("=", "=="):
                return ta.equals(tb)
            if op in ("!=", "<>"):
                return Not(ta.equals(tb))
            if op == "<":
                return ta.less(tb, True)
            if op == "<=":
                return ta.less(tb, False)
            if op == ">":
                return tb.less(ta, True)
            if op == ">=":
                return tb.less(ta, False)
            if op == "||":
                return ta + tb
            raise Unsupported(op)
        if ta is not None or tb is not None:
            raise Unsupported("text compared with number")
        if op in ("=", "=="):
            return a == b
        if op in ("!=", "<>"):
            return a != b
        return {"<": lambda: a < b, "<=": lambda: a <= b, ">": lambda: a > b, ">=": lambda: a >= b}[op]()
    if d in ("e_in", "e_notin"):
        x = ev(c[0], env)
        rhs = c[1]
        if rhs.data != "in_list":
            raise Unsupported("IN (subquery) in a row predicate")
        r = Or(*[x == ev(i, env) for i in rhs.children])
        return r if d == "e_in" else Not(r)
    if d in ("e_like", "e_notlike"):
        text, pat = _text(ev(c[0], env)), _text(ev(c[1], env))
        esc = None
        if len(c) > 2:
            e = ev(c[2].children[0], env)
            if not isinstance(e, str) or len(e) != 1:
                raise Unsupported("ESCAPE")
            esc = ord(e)
        if text is None or pat is None or not text.is_dense():
            raise Unsupported("LIKE operands")
        r = z3str.like(pat, text, esc, env.cs)
        return r if d == "e_like" else Not(r)
    if d == "e_func":
        name = str(c[0]).lower()
        args = [ev(a, env) for a in c[1:] if isinstance(a, lark.Tree)]
        if name == "substr" and len(args) == 3:
            raise Unsupported("substr")
        raise Unsupported(f"function {name}")
    raise Unsupported(f"expression {d}")


def truth(v):
    if isinstance(v, (bool, z3.BoolRef)):
        return v
    if isinstance(v, int):
        return v != 0
    if isinstance(v, z3.ArithRef):
        return v != 0
    raise Unsupported(f"truth of {type(v).__name__}")


def find_where(tree, must_mention):
    """The WHERE / ON expression of the innermost query block that mentions all given columns."""
    cands = []

    def mentions(t, acc):
        if isinstance(t, lark.Tree):
            if t.data == "e_qcol":
                acc.add(f"{t.children[0]}.{t.children[1]}")
                acc.add(str(t.children[1]))
            elif t.data == "e_col":
                acc.add(str(t.children[0]))
            for k in t.children:
                mentions(k, acc)
        return acc

    def size(t):
        return 1 + sum(size(k) for k in t.children) if isinstance(t, lark.Tree) else 1

    def rec(t):
        if not isinstance(t, lark.Tree):
            return
        for k in t.children:
            rec(k)
        if t.data in ("where_clause", "join_cond"):
            if all(m in mentions(t, set()) for m in must_mention):
                cands.append((size(t), len(cands), t.children[0]))

    rec(tree)
    if not cands:
        return None
    return min(cands)[2]
