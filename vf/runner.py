"""Obligation runner: obligations -> processes -> evidence -> exit code.

A property module ``vf.props.<ID>`` exposes ``OBLIGATIONS``: a list of :class:`Ob`.
Each obligation function is executed in its own process (so solver state, monkeypatches of
the live ``stepup`` modules and time limits are isolated) and returns an :class:`ObResult`.

Exit codes of ``bin/check``: 0 = every obligation decided "holds" (solver unsat / CrossHair
Confirmed) and every reachability twin satisfiable; 1 = at least one *replayed* violation that
``known_findings.json`` does not list; 3 = no violation but something inconclusive.
"""

from __future__ import annotations

import dataclasses
import hashlib
import importlib
import json
import multiprocessing as mp
import os
import sys
import time
import traceback
from typing import Any, Callable

VERIF = os.path.dirname(os.path.dirname(os.path.abspath(__file__)))
REPO = os.environ.get("VERIF_REPO", "/repo")
EVIDENCE_DIR = os.path.join(VERIF, "evidence")
REPLAY_DIR = os.path.join(VERIF, "replays")


@dataclasses.dataclass
class Query:
    """One solver query (or CrossHair condition)."""

    name: str
    verdict: str  # unsat | sat | unknown | confirmed | refuted | not_confirmed | error
    seconds: float
    expect: str = "unsat"  # what "property holds" looks like for this query
    note: str = ""


@dataclasses.dataclass
class Violation:
    key: str  # stable identifier of *what* fails (matched against known_findings.json)
    summary: str
    witness: Any
    replay: str | None  # path of the self-contained replay script (reproduced on real code)


@dataclasses.dataclass
class ObResult:
    status: str = "holds"  # holds | violated | inconclusive
    queries: list[Query] = dataclasses.field(default_factory=list)
    violations: list[Violation] = dataclasses.field(default_factory=list)
    inconclusive: list[str] = dataclasses.field(default_factory=list)
    encoded: list[str] = dataclasses.field(default_factory=list)  # functions / SQL objects
    bounds: str = ""
    assumptions: list[str] = dataclasses.field(default_factory=list)
    samples: list[Any] = dataclasses.field(default_factory=list)
    twins: list[Query] = dataclasses.field(default_factory=list)
    nontrivial: int = 0  # number of distinct non-constant queries
    extra: dict = dataclasses.field(default_factory=dict)
    wall_s: float = 0.0

    # helpers used by obligation code -------------------------------------------------
    def q(self, name, verdict, seconds, expect="unsat", note=""):
        self.queries.append(Query(name, str(verdict), float(seconds), expect, note))
        if str(verdict) not in (expect, "sat", "unsat", "confirmed", "refuted"):
            self.inconclusive.append(f"{name}: {verdict} {note}".strip())

    def twin(self, name, verdict, seconds, expect="sat", note=""):
        self.twins.append(Query(name, str(verdict), float(seconds), expect, note))
        if str(verdict) != expect:
            self.inconclusive.append(f"vacuity twin {name}: {verdict} (expected {expect}) {note}")

    def finish(self):
        if self.violations:
            self.status = "violated"
        elif self.inconclusive:
            self.status = "inconclusive"
        else:
            self.status = "holds"
        return self


@dataclasses.dataclass
class Ob:
    oid: str
    fn: Callable[[str], ObResult]
    title: str
    tiers: tuple = ("quick", "thorough")
    timeout: dict | None = None  # per tier seconds
    weight: int = 1  # rough cost, to start the heavy ones first

    def limit(self, tier):
        t = self.timeout or {}
        return t.get(tier, 600 if tier == "quick" else 3000)


def src_hash(obj) -> str:
    """Hash of the source text actually read for an encoded object."""
    import inspect

    try:
        text = obj if isinstance(obj, str) else inspect.getsource(obj)
    except Exception:  # noqa: BLE001
        text = repr(obj)
    return hashlib.sha256(text.encode()).hexdigest()[:12]


def enc(obj, name=None) -> str:
    if name is None:
        name = getattr(obj, "__qualname__", None) or str(obj)[:40]
        mod = getattr(obj, "__module__", "")
        name = f"{mod}.{name}" if mod else name
    return f"{name}#{src_hash(obj)}"


def write_replay(pid: str, oid: str, key: str, body: str) -> str:
    """Write a self-contained replay script; returns its path."""
    os.makedirs(REPLAY_DIR, exist_ok=True)
    h = hashlib.sha256(key.encode()).hexdigest()[:10]
    path = os.path.join(REPLAY_DIR, f"{pid}_{oid.replace('.', '_')}_{h}.py")
    header = (
        "#!/usr/bin/env python3\n"
        + f"# Replay for property {pid}, obligation {oid}.\n"
        + "# finding key: " + key.replace("\n", " ") + "\n"
        + "# Run with: /verif/.venv/bin/python <this file>   (exit 1 = violation reproduces)\n"
        + f"import sys\nsys.path.insert(0, {REPO!r})\nsys.path.insert(0, {VERIF!r})\n"
        + "def _crash(t, v, tb):\n    import traceback, os\n    traceback.print_exception(t, v, tb)\n"
        + "    print('REPLAY CRASHED (exit 2: not a reproduction)')\n    sys.stdout.flush(); os._exit(2)\n"
        + "sys.excepthook = _crash\n"
    )
    with open(path, "w") as fh:
        fh.write(header + body)
    return path


def run_replay(path: str, timeout=300) -> tuple[bool, str]:
    """Run a replay script on the real code.  True = violation reproduces (exit 1)."""
    import subprocess

    try:
        with open(path) as fh:
            compile(fh.read(), path, "exec")
    except SyntaxError as exc:
        return False, f"replay script does not compile: {exc}"
    proc = subprocess.run(
        [sys.executable, path], capture_output=True, text=True, timeout=timeout, check=False
    )
    return proc.returncode == 1, (proc.stdout + proc.stderr)[-2000:]


def bounds_tier(pid, tier, oid=None):
    """The tier whose bounds a run uses.  tiers.json lists the properties whose deeper (thorough)
    bounds were not verified to complete within the time limits on this machine: for those the
    thorough command runs the quick bounds (a time-out is never a pass, and a registered command that
    does not exit 0 on the unchanged tree is a broken check)."""
    if tier != "thorough":
        return tier
    path = os.path.join(VERIF, "tiers.json")
    try:
        with open(path) as fh:
            cfg = json.load(fh)
    except (OSError, ValueError):
        cfg = {}
    same = cfg.get("thorough_runs_quick_bounds", [])
    obs = cfg.get("obligations_thorough_runs_quick_bounds", [])
    if pid in same or (oid is not None and f"{pid}:{oid}" in obs):
        return "quick"
    return tier


def _child(modname, oid, tier, conn):
    t0 = time.time()
    try:
        sys.path.insert(0, REPO)
        mod = importlib.import_module(modname)
        ob = next(o for o in mod.OBLIGATIONS if o.oid == oid)
        res = ob.fn(tier)
        res.finish()
    except BaseException as exc:  # noqa: BLE001
        res = ObResult()
        res.inconclusive.append(
            f"harness error in {oid}: {type(exc).__name__}: {exc}\n" + traceback.format_exc()[-3000:]
        )
        res.finish()
    res.wall_s = time.time() - t0
    try:
        conn.send(dataclasses.asdict(res))
    except Exception as exc:  # noqa: BLE001
        r2 = ObResult()
        r2.inconclusive.append(f"cannot serialise result of {oid}: {exc}")
        r2.finish()
        conn.send(dataclasses.asdict(r2))
    conn.close()


def load_known(pid):
    path = os.path.join(VERIF, "known_findings.json")
    if not os.path.exists(path):
        return []
    with open(path) as fh:
        data = json.load(fh)
    return [k for k in data.get("known", []) if k.get("property") == pid]


def run_property(pid: str, tier: str, only: list[str] | None = None, jobs: int | None = None) -> int:
    t0 = time.time()
    seed = int(os.environ.get("VERIF_SEED", "0") or 0)
    modname = f"vf.props.{pid}"
    sys.path.insert(0, REPO)
    mod = importlib.import_module(modname)
    obs = [o for o in mod.OBLIGATIONS if tier in o.tiers and (not only or o.oid in only)]
    obs.sort(key=lambda o: -o.weight)
    jobs = jobs or int(os.environ.get("VERIF_JOBS", "0") or 0) or min(16, os.cpu_count() or 4)
    ctx = mp.get_context("spawn")
    pending = list(obs)
    total_w = sum(max(1, o.weight) for o in obs) or 1
    ncpu = min(16, os.cpu_count() or 4)
    running: dict[str, tuple] = {}
    results: dict[str, dict] = {}
    while pending or running:
        while pending and len(running) < jobs:
            ob = pending.pop(0)
            parent, child = ctx.Pipe(duplex=False)
            proc = ctx.Process(target=_child, args=(modname, ob.oid, bounds_tier(pid, tier, ob.oid), child), daemon=False)
            # worker processes an obligation may fork for its own exploration (E-SQL paths): its share
            # of the cores by weight
            os.environ["VF_WORKERS"] = str(max(1, min(ncpu, round(ncpu * max(1, ob.weight) / total_w))))
            proc.start()
            child.close()
            running[ob.oid] = (ob, proc, parent, time.time())
        time.sleep(0.05)
        for oid in list(running):
            ob, proc, parent, started = running[oid]
            if parent.poll():
                try:
                    results[oid] = parent.recv()
                except EOFError:
                    results[oid] = dataclasses.asdict(
                        ObResult(status="inconclusive", inconclusive=[f"{oid}: child died"])
                    )
                proc.join(5)
                if proc.is_alive():
                    proc.kill()
                del running[oid]
            elif not proc.is_alive():
                results[oid] = dataclasses.asdict(
                    ObResult(
                        status="inconclusive",
                        inconclusive=[f"{oid}: child exited with {proc.exitcode} without result"],
                    )
                )
                del running[oid]
            elif time.time() - started > ob.limit(tier):
                _kill_tree(proc)
                results[oid] = dataclasses.asdict(
                    ObResult(
                        status="inconclusive",
                        inconclusive=[f"{oid}: time limit {ob.limit(tier)} s exceeded (never a pass)"],
                        wall_s=time.time() - started,
                    )
                )
                del running[oid]
    return _report(pid, tier, seed, obs, results, time.time() - t0, mod)


def _kill_tree(proc):
    import signal
    import subprocess

    try:
        out = subprocess.run(
            ["pgrep", "-P", str(proc.pid)], capture_output=True, text=True, check=False
        ).stdout.split()
        for c in out:
            try:
                os.kill(int(c), signal.SIGKILL)
            except OSError:
                pass
    except Exception:  # noqa: BLE001
        pass
    proc.kill()
    proc.join(5)


def _report(pid, tier, seed, obs, results, wall, mod) -> int:
    known = load_known(pid)
    n_viol = 0
    n_known = 0
    inconclusive = []
    lines = []
    queries = []
    twins = []
    samples = []
    encoded = []
    assumptions = list(getattr(mod, "ASSUMPTIONS", []))
    nontrivial = 0
    per_ob = []
    for ob in obs:
        r = results[ob.oid]
        qs = r["queries"]
        queries += [dict(q, obligation=ob.oid) for q in qs]
        twins += [dict(q, obligation=ob.oid) for q in r["twins"]]
        nontrivial += r["nontrivial"] or len({q["name"] for q in qs})
        encoded += r["encoded"]
        for a in r["assumptions"]:
            if a not in assumptions:
                assumptions.append(a)
        for s in r["samples"][:4]:
            samples.append({"obligation": ob.oid, "sample": s})
        for v in r["violations"]:
            kf = next((k for k in known if k.get("key") == v["key"]), None)
            if kf is not None:
                n_known += 1
                lines.append(f"KNOWN-FINDING: property={pid} {ob.oid} {v['key']}: {v['summary']}")
            else:
                n_viol += 1
                lines.append(f"VIOLATION property={pid} replay={v['replay']}")
                lines.append(f"  obligation {ob.oid}: {v['summary']}")
                lines.append(f"  witness: {json.dumps(v['witness'], default=str)[:600]}")
        for msg in r["inconclusive"]:
            inconclusive.append(f"{ob.oid}: {msg}")
        per_ob.append(
            {
                "id": ob.oid,
                "title": ob.title,
                "status": r["status"],
                "bounds": r["bounds"],
                "queries": len(qs),
                "unsat_or_confirmed": sum(q["verdict"] in ("unsat", "confirmed") for q in qs),
                "sat_or_refuted": sum(q["verdict"] in ("sat", "refuted") for q in qs),
                "unknown": sum(
                    q["verdict"] not in ("unsat", "sat", "confirmed", "refuted") for q in qs
                ),
                "solver_s": round(sum(q["seconds"] for q in qs), 3),
                "twins": [f"{t['name']}={t['verdict']}" for t in r["twins"]],
                "wall_s": round(r["wall_s"], 2),
                "extra": r["extra"],
            }
        )
        st = r["status"].upper()
        lines.append(
            f"[{pid}] {ob.oid:<8} {st:<12} {len(qs):>4} queries "
            f"{sum(q['seconds'] for q in qs):7.1f}s solver  {r['wall_s']:6.1f}s wall  {ob.title}"
        )
    for ln in lines:
        print(ln)
    for msg in inconclusive:
        print("INCONCLUSIVE " + msg.splitlines()[0][:400])
        for extra_line in msg.splitlines()[1:40]:
            print("    " + extra_line)
    n_q = len(queries) + len(twins)
    decided = sum(o["status"] == "holds" for o in per_ob)
    evidence = {
        "property_id": pid,
        "tier": tier,
        "bounds_of_tier": bounds_tier(pid, tier),
        "seed": seed,
        "level": "other",
        "coverage": {
            "explanation": (
                "Bounded SMT / symbolic execution of the real code in /repo (regenerated from the "
                "working tree on this run). Each obligation is a set of solver queries "
                "'assumptions AND NOT property' over symbolic inputs within the stated bounds; "
                "unsat/Confirmed = holds for every value within the bound; every obligation has a "
                "reachability twin that must be satisfiable. "
                + str(getattr(mod, "CLAIM", ""))
            ),
            "evaluations": max(n_q, 1),
            "distinct_nontrivial": nontrivial,
            "rule": (
                "evaluations = solver queries / CrossHair conditions issued (incl. twins); "
                "distinct_nontrivial = distinct named queries whose formula mentions at least one "
                "symbolic variable, as counted by each obligation"
            ),
            "obligations": len(per_ob),
            "discharged": decided,
            "samples": samples[:24] or [{"note": "no samples"}],
            "per_obligation": per_ob,
            "functions_encoded": sorted(set(encoded)),
            "queries": {
                "total": len(queries),
                "unsat_or_confirmed": sum(q["verdict"] in ("unsat", "confirmed") for q in queries),
                "sat_or_refuted": sum(q["verdict"] in ("sat", "refuted") for q in queries),
                "unknown": sum(
                    q["verdict"] not in ("unsat", "sat", "confirmed", "refuted") for q in queries
                ),
                "solver_s": round(sum(q["seconds"] for q in queries), 2),
            },
            "twins": twins[:60],
            "inconclusive": inconclusive[:20],
            "known_findings_reported": n_known,
            "outside_claim": list(getattr(mod, "OUTSIDE", [])),
            "exhaustive": False,
        },
        "assumptions": assumptions,
        "wall_s": round(wall, 2),
        "violations": n_viol,
    }
    os.makedirs(EVIDENCE_DIR, exist_ok=True)
    with open(os.path.join(EVIDENCE_DIR, f"{pid}.json"), "w") as fh:
        json.dump(evidence, fh, indent=1, default=str)
        fh.write("\n")
    status = 1 if n_viol else (3 if inconclusive else 0)
    print(
        f"[{pid}] tier={tier} obligations={len(per_ob)} holds={decided} violations={n_viol} "
        f"known={n_known} inconclusive={len(inconclusive)} queries={n_q} wall={wall:.1f}s exit={status}"
    )
    return status


def main(argv=None):
    import argparse

    ap = argparse.ArgumentParser()
    ap.add_argument("pid")
    ap.add_argument("--tier", default=os.environ.get("VERIF_TIER", "quick"))
    ap.add_argument("--only", nargs="*")
    ap.add_argument("--jobs", type=int)
    ap.add_argument("--replay")
    args = ap.parse_args(argv)
    if args.replay:
        ok, out = run_replay(args.replay)
        print(out)
        print("REPRODUCES" if ok else "does not reproduce")
        return 1 if ok else 0
    tier = args.tier if args.tier in ("quick", "thorough") else "quick"
    return run_property(args.pid, tier, args.only, args.jobs)


if __name__ == "__main__":
    sys.exit(main())
