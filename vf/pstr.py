"""PStr: a `str` subclass that carries a bounded symbolic string (vf.z3str.SStr) so that real
Python glue code can be executed natively on a symbolic path under the fork executor.  Every
supported operation is answered symbolically (Boolean answers fork through Run.decide_bool);
every other str operation raises Unsupported, so the dummy content of the underlying str object
can never leak into a verdict."""

from __future__ import annotations

import itertools

import z3

from vf import z3str
from vf.z3str import SStr, Unsupported

_ids = itertools.count()


def _sym(x):
    if isinstance(x, PStr):
        return x.sym
    if isinstance(x, str):
        return SStr.const(x)
    raise Unsupported(f"PStr operation with {type(x).__name__}")


class PStr(str):
    run = None

    def __new__(cls, sym: SStr):
        obj = super().__new__(cls, f"\x00<sym{next(_ids)}>")
        obj.sym = sym
        return obj

    # -- answers that fork -----------------------------------------------------------------------
    def _decide(self, cond, what):
        if isinstance(cond, bool):
            return cond
        return PStr.run.decide_bool(z3str._b(cond), what)

    def startswith(self, prefix, *a):
        if a:
            raise Unsupported("startswith with offsets")
        if isinstance(prefix, tuple):
            return any(self.startswith(p) for p in prefix)
        return self._decide(self.sym.startswith(_sym(prefix)), "startswith")

    def endswith(self, suffix, *a):
        if a:
            raise Unsupported("endswith with offsets")
        if isinstance(suffix, tuple):
            return any(self.endswith(s) for s in suffix)
        return self._decide(self.sym.endswith(_sym(suffix)), "endswith")

    def __eq__(self, other):
        if not isinstance(other, str):
            return NotImplemented
        return self._decide(self.sym.equals(_sym(other)), "==")

    def __ne__(self, other):
        r = self.__eq__(other)
        return r if r is NotImplemented else not r

    def __hash__(self):
        return 0

    def __bool__(self):
        n = self.sym.length()
        return self._decide(n > 0 if not isinstance(n, int) else n > 0, "non-empty")

    # -- construction ----------------------------------------------------------------------------
    def __add__(self, other):
        return PStr(self.sym + _sym(other))

    def __radd__(self, other):
        return PStr(_sym(other) + self.sym)

    def __getitem__(self, idx):
        if isinstance(idx, slice) and idx.start is None and idx.stop == -1 and idx.step is None:
            return PStr(self.sym.drop_last())
        raise Unsupported(f"PStr[{idx}]")

    def __truediv__(self, rel):
        # posixpath.join(self, rel) for a relative `rel`
        if isinstance(rel, PStr):
            raise Unsupported("join with a symbolic right operand")
        if rel.startswith("/"):
            return rel
        if self._decide(self.sym.equals(SStr.const("")), "join: empty left"):
            return PStr(SStr.const(rel))
        if self.endswith("/"):
            return PStr(self.sym + SStr.const(rel))
        return PStr(self.sym + SStr.const("/" + rel))

    def __rtruediv__(self, left):
        raise Unsupported("join with a symbolic right operand")

    def __str__(self):
        return self

    def __fspath__(self):
        return self

    def __repr__(self):
        return f"PStr#{id(self) % 1000}"

    def replace(self, old, new, count=-1):
        if count != -1 or not (isinstance(old, str) and len(old) == 1 and not isinstance(old, PStr)):
            raise Unsupported("replace")
        return PStr(self.sym.replace_char(ord(old), _sym(new)))

    def __format__(self, spec):
        raise Unsupported("formatting a symbolic string")


def _blocked(name):
    def f(self, *a, **k):
        raise Unsupported(f"str.{name} on a symbolic string")

    f.__name__ = name
    return f


for _name in (
    "__len__", "__iter__", "__contains__", "__lt__", "__le__", "__gt__", "__ge__", "__mod__", "__mul__",
    "split", "rsplit", "strip", "lstrip", "rstrip", "lower", "upper", "find", "rfind", "index", "rindex",
    "partition", "rpartition", "join", "encode", "format", "count", "isdigit", "isalpha", "splitlines",
    "removeprefix", "removesuffix", "casefold", "title", "zfill", "center", "ljust", "rjust", "translate",
):
    setattr(PStr, _name, _blocked(_name))
