"""Symbolic dict / int proxies for native execution of small bookkeeping code under the fork
executor (vf.symsql.executor.Run): a dict over a fixed universe of concrete keys with symbolic
presence and symbolic integer values.  Comparisons fork (two outcomes, infeasible ones pruned);
`min` is replaced by a fork-free symbolic minimum through a module-level shim."""

from __future__ import annotations

import z3


class SymInt:
    run = None

    def __init__(self, term):
        self.term = term

    def _t(self, o):
        return o.term if isinstance(o, SymInt) else o

    def __lt__(self, o):
        return SymInt.run.decide_bool(self.term < self._t(o), "<")

    def __le__(self, o):
        return SymInt.run.decide_bool(self.term <= self._t(o), "<=")

    def __gt__(self, o):
        return SymInt.run.decide_bool(self.term > self._t(o), ">")

    def __ge__(self, o):
        return SymInt.run.decide_bool(self.term >= self._t(o), ">=")

    def __eq__(self, o):
        if o is None:
            return False
        return SymInt.run.decide_bool(self.term == self._t(o), "==")

    def __ne__(self, o):
        return not self.__eq__(o)

    def __hash__(self):
        return 0

    def __add__(self, o):
        return SymInt(self.term + self._t(o))

    __radd__ = __add__

    def __sub__(self, o):
        return SymInt(self.term - self._t(o))


def sym_min(values):
    """fork-free minimum of SymInt / int values"""
    vals = [v.term if isinstance(v, SymInt) else z3.IntVal(v) for v in values]
    if not vals:
        raise ValueError("min() arg is an empty sequence")
    acc = vals[0]
    for v in vals[1:]:
        acc = z3.If(v < acc, v, acc)
    return SymInt(acc)


class SymDict:
    """dict over the concrete key universe `keys`; entry k is (present[k]: z3 Bool, value[k]: z3 Int)."""

    def __init__(self, keys, name):
        self.keys_ = list(keys)
        self.present = {k: z3.Bool(f"{name}.has[{k}]") for k in self.keys_}
        self.value = {k: z3.Int(f"{name}.val[{k}]") for k in self.keys_}

    @property
    def run(self):
        return SymInt.run

    def pop(self, k, default=None):
        if self.run.decide_bool(self.present[k], "pop: present"):
            v = SymInt(self.value[k])
            self.present[k] = z3.BoolVal(False)
            return v
        if default is None:
            return None
        return default

    def get(self, k, default=None):
        if k in self.present and self.run.decide_bool(self.present[k], "get: present"):
            return SymInt(self.value[k])
        return default

    def __getitem__(self, k):
        if self.run.decide_bool(self.present[k], "getitem: present"):
            return SymInt(self.value[k])
        raise KeyError(k)

    def __setitem__(self, k, v):
        self.present[k] = z3.BoolVal(True)
        self.value[k] = v.term if isinstance(v, SymInt) else z3.IntVal(v)

    def __delitem__(self, k):
        if not self.run.decide_bool(self.present[k], "del: present"):
            raise KeyError(k)
        self.present[k] = z3.BoolVal(False)

    def __contains__(self, k):
        return k in self.present and self.run.decide_bool(self.present[k], "in")

    def __len__(self):
        # Only emptiness is observable through this proxy: 0 or "some" (1).  Callers that need
        # the exact size fork on presence through keys()/items().
        empty = z3.Not(z3.Or(*self.present.values()))
        return 0 if self.run.decide_bool(empty, "len == 0") else 1

    def clear(self):
        for k in self.keys_:
            self.present[k] = z3.BoolVal(False)

    def _present_keys(self):
        return [k for k in self.keys_ if self.run.decide_bool(self.present[k], f"iter: {k} present")]

    def keys(self):
        return self._present_keys()

    def values(self):
        return [SymInt(self.value[k]) for k in self._present_keys()]

    def items(self):
        return [(k, SymInt(self.value[k])) for k in self._present_keys()]

    def __iter__(self):
        return iter(self._present_keys())
