"""E-Z3 regexes: translate Python regular expressions (as produced by the live code) to z3 ``Re``
terms through ``re._parser``, exactly; back-references become shared string variables (word
equations).  Questions are then language inclusion / equivalence over *all* strings.
"""

from __future__ import annotations

import re
import re._constants as C
import re._parser as P
import time

import z3

STR = z3.StringSort()
MAXCHAR = 0x2FFFF  # z3's character range


def _chr(c):
    return z3.StringVal(chr(c))


def _range(lo, hi):
    return z3.Range(chr(lo), chr(hi))


ANYCHAR = None


def anychar():
    return z3.AllChar(z3.ReSort(STR))


def not_chars(chars):
    """Any single character except the given ones."""
    r = anychar()
    bad = z3.Union(*[z3.Re(_chr(c)) for c in chars]) if len(chars) > 1 else z3.Re(_chr(chars[0]))
    return z3.Intersect(r, z3.Complement(bad))


class Translator:
    def __init__(self, dotall=False):
        self.dotall = dotall
        self.groups = {}  # group index -> name

    def parse(self, pattern: str, flags=0):
        tree = P.parse(pattern, flags)
        self.groupindex = dict(tree.state.groupdict)
        self.idx2name = {v: k for k, v in self.groupindex.items()}
        if tree.state.flags & re.DOTALL:
            self.dotall = True
        return tree

    def has_backrefs(self, items) -> bool:
        for op, av in items:
            if op is C.GROUPREF:
                return True
            if op is C.SUBPATTERN and self.has_backrefs(av[3]):
                return True
            if op is C.BRANCH and any(self.has_backrefs(b) for b in av[1]):
                return True
            if op in (C.MAX_REPEAT, C.MIN_REPEAT) and self.has_backrefs(av[2]):
                return True
        return False

    # -- pure regular part -------------------------------------------------------------------
    def re_of(self, items):
        parts = [self.item(op, av) for op, av in items]
        if not parts:
            return z3.Re(z3.StringVal(""))
        return parts[0] if len(parts) == 1 else z3.Concat(*parts)

    def item(self, op, av):
        if op is C.LITERAL:
            return z3.Re(_chr(av))
        if op is C.NOT_LITERAL:
            return not_chars([av])
        if op is C.ANY:
            return anychar() if self.dotall else not_chars([10])
        if op is C.IN:
            return self.charset(av)
        if op is C.SUBPATTERN:
            group, add_flags, del_flags, sub = av
            saved = self.dotall
            if add_flags & re.DOTALL:
                self.dotall = True
            try:
                return self.re_of(sub)
            finally:
                self.dotall = saved
        if op is C.ATOMIC_GROUP:
            # (?>...): used by fnmatch.translate around '.*?literal' purely to stop backtracking;
            # in that shape it accepts the same language as the plain group (validated against
            # `re` by selftest on every run).
            return self.re_of(av)
        if op is C.BRANCH:
            alts = [self.re_of(b) for b in av[1]]
            return z3.Union(*alts) if len(alts) > 1 else alts[0]
        if op in (C.MAX_REPEAT, C.MIN_REPEAT):
            lo, hi, sub = av
            r = self.re_of(sub)
            if hi is C.MAXREPEAT:
                if lo == 0:
                    return z3.Star(r)
                if lo == 1:
                    return z3.Plus(r)
                return z3.Concat(z3.Loop(r, lo, lo), z3.Star(r))
            if lo == 0 and hi == 1:
                return z3.Option(r)
            return z3.Loop(r, lo, hi)
        if op is C.AT:
            # anchors: with fullmatch semantics only the trivial ones are accepted
            if av in (C.AT_BEGINNING, C.AT_BEGINNING_STRING, C.AT_END_STRING):
                return z3.Re(z3.StringVal(""))
            raise ValueError(f"unsupported anchor {av}")
        raise ValueError(f"unsupported regex construct {op}")

    def charset(self, av):
        negate = False
        alts = []
        for op, x in av:
            if op is C.NEGATE:
                negate = True
            elif op is C.LITERAL:
                alts.append(z3.Re(_chr(x)))
            elif op is C.RANGE:
                alts.append(_range(x[0], x[1]))
            elif op is C.CATEGORY:
                if x is C.CATEGORY_DIGIT:
                    alts.append(_range(48, 57))
                elif x is C.CATEGORY_SPACE:
                    alts.append(z3.Union(*[z3.Re(_chr(c)) for c in (9, 10, 11, 12, 13, 32)]))
                else:
                    raise ValueError(f"unsupported category {x}")
            else:
                raise ValueError(f"unsupported charset item {op}")
        r = z3.Union(*alts) if len(alts) > 1 else alts[0]
        if negate:
            return z3.Intersect(anychar(), z3.Complement(r))
        return r

    # -- membership with back-references ---------------------------------------------------------
    def member(self, s, pattern: str, tag="g", expose_groups=False):
        """Constraint: the python regex `pattern` fullmatches s.

        Without back-references (and unless `expose_groups`) this is a plain ``InRe`` and may be
        used under negation.  With back-references, or when the captured groups are wanted, the
        top-level concatenation is split into fresh string variables (an existential: only sound
        in positive position).  Returns (constraint, {group name: string variable})."""
        tree = self.parse(pattern)
        items = list(tree)
        if not self.has_backrefs(items) and not expose_groups:
            return z3.InRe(s, self.re_of(items)), {}
        return self._member_split(s, items, tag)

    def _member_split(self, s, items, tag):
        """Top-level concatenation: one string variable per named group / back-reference."""
        named_top = [
            (op, av) for op, av in items if (op is C.SUBPATTERN and av[0] in self.idx2name) or op is C.GROUPREF
        ]
        if not named_top:
            return z3.InRe(s, self.re_of(items)), {}
        cons = []
        pieces = []
        groups = {}
        buf = []
        k = 0

        def flush():
            nonlocal buf, k
            if buf:
                v = z3.String(f"{tag}.seg{k}")
                k += 1
                cons.append(z3.InRe(v, self.re_of(buf)))
                pieces.append(v)
                buf = []

        for op, av in items:
            if op is C.SUBPATTERN and av[0] in self.idx2name:
                flush()
                name = self.idx2name[av[0]]
                v = z3.String(f"{tag}.{name}")
                if self.has_backrefs(av[3]):
                    raise ValueError("back-reference inside a group")
                cons.append(z3.InRe(v, self.re_of(av[3])))
                groups[name] = v
                pieces.append(v)
            elif op is C.GROUPREF:
                flush()
                name = self.idx2name.get(av)
                if name is None or name not in groups:
                    raise ValueError("back-reference to an unknown / later group")
                pieces.append(groups[name])
            else:
                if self.has_backrefs([(op, av)]):
                    raise ValueError("nested back-reference")
                buf.append((op, av))
        flush()
        cons.append(s == (z3.Concat(*pieces) if len(pieces) > 1 else pieces[0]))
        self.last_pieces = pieces
        return z3.And(*cons), groups


def to_re(pattern: str, dotall=False):
    t = Translator(dotall)
    tree = t.parse(pattern)
    return t.re_of(list(tree))


def check(constraints, timeout_ms=60000):
    s = z3.Solver()
    s.set("timeout", timeout_ms)
    for c in constraints:
        s.add(c)
    t0 = time.time()
    r = s.check()
    dt = time.time() - t0
    return str(r), (s.model() if r == z3.sat else None), dt


def model_str(m, v):
    val = m.eval(v, model_completion=True)
    return val.as_string() if hasattr(val, "as_string") else str(val)


def decode_z3_string(s: str) -> str:
    """z3 prints non-printable characters as \\u{..}: decode to a python str."""
    return re.sub(r"\\u\{([0-9a-fA-F]+)\}", lambda mo: chr(int(mo.group(1), 16)), s)


def selftest(cases):
    """cases: iterable of (regex, string).  Compares re.fullmatch with the z3 translation."""
    n = 0
    for pattern, text in cases:
        want = re.fullmatch(pattern, text) is not None
        t = Translator()
        c, _ = t.member(z3.StringVal(text), pattern, tag=f"st{n}")
        r, _, _ = check([c], 20000)
        got = r == "sat"
        n += 1
        if got != want:
            raise AssertionError(f"z3re disagrees with re on {pattern!r} / {text!r}: z3={r} re={want}")
    return n
