"""Parse StepUp's SQL with lark into a light AST (nested tuples / Tree)."""

from __future__ import annotations

import functools
import os

import lark

_HERE = os.path.dirname(os.path.abspath(__file__))


@functools.lru_cache(maxsize=1)
def parser():
    with open(os.path.join(_HERE, "grammar.lark")) as fh:
        return lark.Lark(fh.read(), parser="lalr", lexer="contextual", maybe_placeholders=False)


@functools.lru_cache(maxsize=4096)
def parse(sql: str) -> lark.Tree:
    import re

    return parser().parse(re.sub(r"\btemp\.", "", sql))


def parse_script(sql: str) -> list[lark.Tree]:
    tree = parse(sql)
    return [c for c in tree.children if isinstance(c, lark.Tree)]
