"""Schema objects parsed from the live CREATE TABLE / INDEX / TRIGGER scripts."""

from __future__ import annotations

import dataclasses

import lark

from .parse import parse_script


@dataclasses.dataclass
class Column:
    name: str
    type: str  # INTEGER | TEXT | REAL | BOOLEAN | ''
    notnull: bool = False
    pk: bool = False
    unique: bool = False
    default: lark.Tree | None = None
    checks: list = dataclasses.field(default_factory=list)

    @property
    def kind(self):
        t = self.type.upper()
        if t in ("INTEGER", "INT", "BOOLEAN", ""):
            return "i"
        if t == "REAL":
            return "r"
        if t == "TEXT":
            return "t"
        return "i"


@dataclasses.dataclass
class ForeignKey:
    cols: list
    ref_table: str
    ref_cols: list
    on_delete: str = "NO ACTION"


@dataclasses.dataclass
class Table:
    name: str
    columns: list
    pk: list
    uniques: list  # list of (cols, where_tree | None)
    checks: list  # expression trees
    fks: list
    temp: bool = False
    without_rowid: bool = False

    def col(self, name):
        for c in self.columns:
            if c.name == name:
                return c
        raise KeyError(f"{self.name}.{name}")

    @property
    def colnames(self):
        return [c.name for c in self.columns]

    @property
    def rowid_alias(self):
        """single INTEGER PRIMARY KEY on a rowid table -> auto-assigned when omitted"""
        return (
            not self.without_rowid
            and len(self.pk) == 1
            and self.col(self.pk[0]).type.upper() == "INTEGER"
        )


@dataclasses.dataclass
class Trigger:
    name: str
    table: str
    time: str  # AFTER | BEFORE
    event: str  # insert | update | delete
    of_cols: list
    when: lark.Tree | None
    body: list
    temp: bool = False


class Schema:
    def __init__(self):
        self.tables: dict[str, Table] = {}
        self.triggers: list[Trigger] = []
        self.index_exprs: list = []  # (index name, table, where tree) informational

    def load(self, script: str):
        for st in parse_script(script):
            self.add(st)
        return self

    def add(self, st: lark.Tree):
        if st.data == "create_table":
            self._table(st)
        elif st.data == "create_index":
            self._index(st)
        elif st.data == "create_trigger":
            self._trigger(st)
        else:
            raise ValueError(f"not a schema statement: {st.data}")

    def _table(self, st):
        kids = list(st.children)
        temp = any(isinstance(k, lark.Tree) and k.data == "temp" for k in kids)
        name = next(str(k) for k in kids if isinstance(k, lark.Token) and k.type == "NAME")
        body = next(k for k in kids if isinstance(k, lark.Tree) and k.data in ("tbody_cols", "tbody_as"))
        if body.data == "tbody_as":
            raise ValueError("CREATE TABLE AS in schema")
        if name in self.tables:
            return
        t = Table(name, [], [], [], [], [], temp=temp)
        for item in body.children:
            if not isinstance(item, lark.Tree):
                continue
            if item.data == "without_rowid":
                t.without_rowid = True
            elif item.data == "column_def":
                cname = str(item.children[0])
                ctype = ""
                col = Column(cname, ctype)
                for sub in item.children[1:]:
                    if sub.data == "type_name":
                        col.type = str(sub.children[0])
                    elif sub.data == "cc_pk":
                        col.pk = True
                        t.pk = [cname]
                    elif sub.data == "cc_notnull":
                        col.notnull = True
                    elif sub.data == "cc_unique":
                        t.uniques.append(([cname], None))
                    elif sub.data == "cc_check":
                        t.checks.append(sub.children[0])
                    elif sub.data == "cc_default":
                        col.default = sub.children[0]
                    elif sub.data == "cc_ref":
                        ref = str(sub.children[0])
                        rc = [str(x) for x in sub.children[1].children] if len(sub.children) > 1 and isinstance(sub.children[1], lark.Tree) and sub.children[1].data == "name_list" else []
                        t.fks.append(ForeignKey([cname], ref, rc, _fk_delete(sub)))
                t.columns.append(col)
            elif item.data == "tc_pk":
                t.pk = [str(x) for x in item.children[0].children]
            elif item.data == "tc_unique":
                t.uniques.append(([str(x) for x in item.children[0].children], None))
            elif item.data == "tc_check":
                t.checks.append(item.children[0])
            elif item.data == "tc_fk":
                cols = [str(x) for x in item.children[0].children]
                ref = str(item.children[1])
                rc = []
                if len(item.children) > 2 and isinstance(item.children[2], lark.Tree) and item.children[2].data == "name_list":
                    rc = [str(x) for x in item.children[2].children]
                t.fks.append(ForeignKey(cols, ref, rc, _fk_delete(item)))
        for c in t.columns:
            if c.name in t.pk and (t.without_rowid or len(t.pk) > 1 or c.type.upper() == "INTEGER"):
                # PRIMARY KEY implies NOT NULL for WITHOUT ROWID tables and INTEGER PRIMARY KEY
                c.notnull = True
        self.tables[name] = t

    def _index(self, st):
        kids = list(st.children)
        unique = any(isinstance(k, lark.Token) and k.type == "UNIQUE" for k in kids)
        names = [str(k) for k in kids if isinstance(k, lark.Token) and k.type == "NAME"]
        iname, tname = names[0], names[1]
        terms = [k for k in kids if isinstance(k, lark.Tree) and k.data == "index_term"]
        where = next((k.children[0] for k in kids if isinstance(k, lark.Tree) and k.data == "where_clause"), None)
        self.index_exprs.append((iname, tname, where))
        if unique:
            cols = []
            for term in terms:
                e = term.children[0]
                if isinstance(e, lark.Tree) and e.data == "e_col":
                    cols.append(str(e.children[0]))
                else:
                    raise ValueError("UNIQUE index on an expression")
            self.tables[tname].uniques.append((cols, where))

    def _trigger(self, st):
        kids = list(st.children)
        temp = any(isinstance(k, lark.Tree) and k.data == "temp" for k in kids)
        names = [str(k) for k in kids if isinstance(k, lark.Token) and k.type == "NAME"]
        name, table = names[0], names[1]
        if any(t.name == name for t in self.triggers):
            return
        time = "AFTER"
        for k in kids:
            if isinstance(k, lark.Tree) and k.data == "trigger_time":
                time = " ".join(str(x) for x in k.children).upper()
        ev = next(k for k in kids if isinstance(k, lark.Tree) and k.data.startswith("ev_"))
        event = ev.data[3:]
        of_cols = []
        if ev.children:
            of_cols = [str(x) for x in ev.children[0].children]
        when = next((k.children[0] for k in kids if isinstance(k, lark.Tree) and k.data == "trigger_when"), None)
        body = [
            k
            for k in kids
            if isinstance(k, lark.Tree)
            and k.data in ("select_stmt", "insert_stmt", "update_stmt", "delete_stmt")
        ]
        self.triggers.append(Trigger(name, table, time, event, of_cols, when, body, temp))


def _fk_delete(tree):
    for sub in tree.children:
        if isinstance(sub, lark.Tree) and sub.data == "fk_action":
            ev, do = str(sub.children[0]).upper(), " ".join(str(sub.children[1]).upper().split())
            if ev == "DELETE":
                return do
    return "NO ACTION"
