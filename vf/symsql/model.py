"""The bounded symbolic workflow state and the *oracles* written from the property statements
(independently of the SQL under test): graph invariants, and the definitions of the scheduling
attributes that StepUp caches (safe, ready, implied need, has-hash, resource availability)."""

from __future__ import annotations

import z3

from . import live
from .engine import Ctx
from .state import make_ctx, symbolic_tables
from .values import bz

# enum values are read live
def enums():
    from stepup.core.enums import FileState, Need, StepState

    return FileState, StepState, Need


class _Tagged(list):
    def __init__(self):
        super().__init__()
        self.tags = []

    def add(self, tag, f):
        self.append(f)
        self.tags.append(tag)


class Wf:
    """Symbolic workflow database over K node slots and D dependency slots."""

    def __init__(self, K=5, D=4, extra_caps=None, extra_pool=(), prefix="s", with_scheduler_tables=True, labels=None, fixed=None):
        scripts = live.schema_scripts() + (live.scheduler_temp_ddl() if with_scheduler_tables else [])
        self.labels = list(labels) if labels is not None else ["a", "b", "d/", "d/x", "d0", "p", "q"]
        pool = ["", "root", "file", "step", "st", "p", "q", "d/", "d0"] + self.labels + live.hash_json_pool() + live.step_hash_json_pool() + list(extra_pool)
        self.ctx = make_ctx(scripts, pool, live.IGNORED_TABLES, live.like_case_sensitive())
        self.K, self.D = K, D
        caps = {
            "node": K, "step": K, "file": K, "step_hash": K, "dependency": D, "dynamic_dep": D,
            "nglob": 1, "env_var": 1, "step_resource": 2, "available_resource": 2,
            "target_path": 2, "target_dir": 1, "path_list": 2, "node_list": K,
            "check_after": K, "changed_after": K, "safe_update": K, "*": 2,
        }
        caps.update(extra_caps or {})
        self.caps = caps
        self.cons = symbolic_tables(self.ctx, caps, prefix=prefix, fixed=fixed)
        self.cons += self.typing()

    # -- accessors ---------------------------------------------------------------------------------
    def t(self, name):
        return self.ctx.tables[name]

    def atom(self, s):
        return self.ctx.pool.atom(s)

    @property
    def nodes(self):
        return self.t("node").rows

    @property
    def steps(self):
        return self.t("step").rows

    @property
    def files(self):
        return self.t("file").rows

    @property
    def deps(self):
        return self.t("dependency").rows

    def is_kind(self, j, kind):
        r = self.nodes[j]
        return z3.And(bz(r.present), r.vals["kind"].v == self.atom(kind))

    def attached(self, j):
        r = self.nodes[j]
        return z3.And(bz(r.present), r.vals["detached"].v == 0)

    def is_dyn(self, d):
        return bz(self.t("dynamic_dep").rows[d].present)

    # -- typing: what every stored workflow looks like beyond the CHECK constraints -------------------
    def typing(self):
        FileState, StepState, Need = enums()
        cons = []
        pool = self.ctx.pool
        kinds = [pool.atom(k) for k in ("root", "file", "step", "st")]
        hashes = [pool.atom(h) for h in live.hash_json_pool()]
        shashes = [pool.atom(h) for h in live.step_hash_json_pool()]
        labels = [pool.atom(s) for s in self.labels]
        for j, r in enumerate(self.nodes):
            cons.append(z3.Or(*[r.vals["kind"].v == k for k in kinds]))
            cons.append(z3.Or(r.vals["label"].v == pool.atom(""), *[r.vals["label"].v == a for a in labels]))
            cons.append(z3.Implies(bz(r.present), (r.vals["kind"].v == pool.atom("root")) == (j == 0)))
            cons.append(z3.Implies(z3.And(bz(r.present), j != 0), r.vals["label"].v != pool.atom("")))
            cons.append(z3.Or(r.vals["creator"].n, z3.And(r.vals["creator"].v >= 1, r.vals["creator"].v <= self.K)))
            for name, kind in (("step", "step"), ("file", "file")):
                tr = self.t(name).rows[j]
                cons.append(bz(tr.present) == z3.And(bz(r.present), r.vals["kind"].v == pool.atom(kind)))
            hr = self.t("step_hash").rows[j]
            cons.append(z3.Implies(bz(hr.present), bz(self.steps[j].present)))
        cons.append(bz(self.nodes[0].present))
        for r in self.t("file").rows:
            cons.append(z3.Or(*[r.vals["hash"].v == h for h in hashes]))
        for r in self.t("step_hash").rows:
            cons.append(z3.Or(*[r.vals["hash"].v == h for h in shashes]))
        for r in self.steps:
            cons.append(r.vals["env_overrides"].n == True)  # noqa: E712
            cons.append(z3.And(r.vals["duration"].v >= 0, r.vals["duration"].v <= 3, r.vals["_tail_time"].v >= 0, r.vals["_tail_time"].v <= 9))
            cons.append(z3.And(r.vals["defer_count"].v >= 0, r.vals["defer_count"].v <= 2, r.vals["_holding"].v >= 0, r.vals["_holding"].v <= 2))
        for d, r in enumerate(self.deps):
            cons.append(z3.And(r.vals["source"].v >= 1, r.vals["source"].v <= self.K, r.vals["sink"].v >= 1, r.vals["sink"].v <= self.K))
            cons.append(z3.Implies(bz(self.t("dynamic_dep").rows[d].present), bz(r.present)))
        for name in ("nglob", "env_var"):
            for r in self.t(name).rows:
                if isinstance(r.present, bool):
                    continue  # pinned content
                cons.append(bz(r.present) == False)  # noqa: E712
        res_names = [pool.atom("p"), pool.atom("q")]
        for name in ("step_resource", "available_resource"):
            if name in self.ctx.tables:
                for r in self.t(name).rows:
                    cons.append(z3.Or(*[r.vals["name"].v == a for a in res_names]))
                    cons.append(z3.And(r.vals["units"].v >= 0, r.vals["units"].v <= 3))
        if "step_resource" in self.ctx.tables:
            for r in self.t("step_resource").rows:
                cons.append(z3.And(r.vals["node"].v >= 1, r.vals["node"].v <= self.K))
                cons.append(z3.Implies(bz(r.present), z3.Or(*[z3.And(r.vals["node"].v == j + 1, bz(self.steps[j].present)) for j in range(self.K)])))
        if "target_path" in self.ctx.tables:
            for r in self.t("target_path").rows:
                if isinstance(r.present, bool):
                    continue  # pinned content
                cons.append(z3.Or(*[r.vals["path"].v == a for a in labels]))
        if "target_dir" in self.ctx.tables:
            for r in self.t("target_dir").rows:
                if isinstance(r.present, bool):
                    continue
                cons.append(z3.And(r.vals["path"].v == pool.atom("d/"), r.vals["upper"].v == pool.atom("d0")))
        # primary-key text columns of the scratch tables are never NULL (they are filled from
        # parsed command-line values); SQLite itself would allow NULL in a rowid table's TEXT key
        for name, col in (("available_resource", "name"), ("target_path", "path"), ("target_dir", "path"), ("path_list", "path")):
            if name in self.ctx.tables:
                for r in self.t(name).rows:
                    if r.vals[col].n is not False and not isinstance(r.present, bool):
                        cons.append(z3.Not(r.vals[col].n))
        for name in ("check_after", "changed_after", "safe_update", "node_list", "path_list"):
            if name in self.ctx.tables:
                for r in self.t(name).rows:
                    cons.append(bz(r.present) == False)  # noqa: E712  scratch tables start empty
        return cons

    # -- graph invariants (I1..I7 of DESIGN.md section 5 / C09), as formulas over the current state ----
    def creator_is(self, j, c):
        r = self.nodes[j]
        return z3.And(z3.Not(bz(r.vals["creator"].n)), r.vals["creator"].v == c + 1)

    def reach_from_root(self, rows=None):
        """R[j]: node j is reachable from the root through creator links (K iterations)."""
        K = self.K
        R = [z3.BoolVal(j == 0) for j in range(K)]
        for _ in range(K):
            R = [z3.Or(R[j], z3.And(bz(self.nodes[j].present), z3.Or(*[z3.And(self.creator_is(j, c), bz(self.nodes[c].present), R[c]) for c in range(K) if c != j]))) for j in range(K)]
        return R

    def dep_edge(self, a, b):
        return z3.Or(*[z3.And(bz(r.present), r.vals["source"].v == a + 1, r.vals["sink"].v == b + 1) for r in self.deps])

    def dep_closure(self):
        K = self.K
        E = [[self.dep_edge(a, b) for b in range(K)] for a in range(K)]
        C = E
        for _ in range(K):
            C = [[z3.Or(C[a][b], *[z3.And(C[a][m], E[m][b]) for m in range(K)]) for b in range(K)] for a in range(K)]
        return C

    def inv(self, acyclic_by_rank=True, tag="rk", strong_i4=False):
        FileState, StepState, Need = enums()
        K = self.K
        cons = _Tagged()
        R = self.reach_from_root()
        pool = self.ctx.pool
        for j in range(K):
            n = self.nodes[j]
            p = bz(n.present)
            if j > 0:
                T = "I1"
                cons.add(T, z3.Implies(p, (n.vals["detached"].v == 1) == z3.Not(R[j])))  # I1
                # creator refers to a present node of an allowed kind (I7, as in WORKFLOW_SCHEMA)
                T = "I7"
                for c in range(K):
                    ck = self.nodes[c].vals["kind"].v
                    allowed = z3.Or(
                        z3.And(n.vals["kind"].v == pool.atom("file"), z3.Or(ck == pool.atom("step"), ck == pool.atom("st"), ck == pool.atom("root"))),
                        z3.And(n.vals["kind"].v == pool.atom("step"), z3.Or(ck == pool.atom("step"), ck == pool.atom("root"))),
                        z3.And(n.vals["kind"].v == pool.atom("st"), ck == pool.atom("step")),
                    )
                    cons.add(T, z3.Implies(z3.And(p, self.creator_is(j, c)), z3.And(bz(self.nodes[c].present), allowed)))
                cons.add(T, z3.Implies(p, z3.Not(self.creator_is(j, j))))
            f = self.files[j]
            fp = bz(f.present)
            st = f.vals["state"].v
            T = "I3"
            cons.add(T, z3.Implies(z3.And(fp, st == FileState.UNDECLARED.value), n.vals["detached"].v == 1))  # I3
            # I3b (strengthening): an UNDECLARED file is a placeholder created without a creator
            cons.add(T, z3.Implies(z3.And(fp, st == FileState.UNDECLARED.value), bz(n.vals["creator"].n)))
            need_hash = z3.Or(st == FileState.CONFIRMED.value, st == FileState.BUILT.value, st == FileState.OUTDATED.value)
            no_hash = z3.Or(st == FileState.MISSING.value, st == FileState.PLANNED.value, st == FileState.VOLATILE.value)
            T = "I5"
            cons.add(T, z3.Implies(z3.And(fp, need_hash), z3.Not(bz(f.vals["hash"].n))))  # I5
            cons.add(T, z3.Implies(z3.And(fp, no_hash), bz(f.vals["hash"].n)))
            s = self.steps[j]
            sp = bz(s.present)
            cons.add(T, z3.Implies(sp, (s.vals["_has_hash"].v == 1) == bz(self.t("step_hash").rows[j].present)))  # I5
            T = "I6"
            cons.add(T, z3.Implies(z3.And(sp, s.vals["_holding"].v > 0), s.vals["state"].v == StepState.RUNNING.value))  # I6
        T = "I2"
        # I2: dependency kinds and acyclicity
        for r in self.deps:
            for a in range(K):
                for b in range(K):
                    e = z3.And(bz(r.present), r.vals["source"].v == a + 1, r.vals["sink"].v == b + 1)
                    ka, kb = self.nodes[a].vals["kind"].v, self.nodes[b].vals["kind"].v
                    ok = z3.And(
                        bz(self.nodes[a].present),
                        bz(self.nodes[b].present),
                        z3.Or(
                            z3.And(ka == pool.atom("file"), kb == pool.atom("step")),
                            z3.And(ka == pool.atom("step"), kb == pool.atom("file")),
                            z3.And(ka == pool.atom("st"), kb == pool.atom("file")),
                        ),
                    )
                    cons.add(T, z3.Implies(e, ok))
        if acyclic_by_rank:
            rank = [z3.Int(f"{tag}[{j}]") for j in range(K)]
            for r in self.deps:
                for a in range(K):
                    for b in range(K):
                        e = z3.And(bz(r.present), r.vals["source"].v == a + 1, r.vals["sink"].v == b + 1)
                        cons.add(T, z3.Implies(e, rank[a] < rank[b]))
        T = "I8"
        # I8: a file that a step produces (edge step -> file) was created by that step: outputs are
        # declared by their producer (define_step / amend_step), or lost their creator when detached
        for a in range(K):
            for b in range(K):
                e = z3.And(self.dep_edge(a, b), bz(self.steps[a].present), bz(self.files[b].present))
                cons.add(T, z3.Implies(e, z3.Or(bz(self.nodes[b].vals["creator"].n), self.creator_is(b, a))))
        T = "I9"
        # I9: roles.  An attached file that some step produces is in an output or volatile state; an
        # attached file that no step produces is in a static state.
        FS = FileState
        for b in range(K):
            produced = z3.Or(*[z3.And(self.dep_edge(a, b), bz(self.steps[a].present)) for a in range(K)])
            st_b = self.files[b].vals["state"].v
            out_states = z3.Or(st_b == FS.PLANNED.value, st_b == FS.BUILT.value, st_b == FS.OUTDATED.value, st_b == FS.VOLATILE.value)
            static_states = z3.Or(st_b == FS.UNCONFIRMED.value, st_b == FS.MISSING.value, st_b == FS.CONFIRMED.value)
            att = z3.And(bz(self.files[b].present), self.nodes[b].vals["detached"].v == 0)
            # (the same for a file that was detached together with its producer: it keeps the state it had)
            own = z3.Or(*[z3.And(self.dep_edge(a, b), bz(self.steps[a].present), self.creator_is(b, a)) for a in range(K)])
            cons.add(T, z3.Implies(z3.And(bz(self.files[b].present), own), out_states))
            cons.add(T, z3.Implies(z3.And(att, produced), out_states))
            cons.add(T, z3.Implies(z3.And(att, z3.Not(produced)), static_states))
        T = "I4"
        # I4: attached output of a SUCCEEDED step is BUILT or VOLATILE
        for a in range(K):
            for b in range(K):
                e = z3.And(self.dep_edge(a, b), bz(self.steps[a].present), bz(self.files[b].present))
                cons.add(T, 
                    z3.Implies(
                        z3.And(e, self.steps[a].vals["state"].v == StepState.SUCCEEDED.value, self.nodes[b].vals["detached"].v == 0),
                        z3.Or(self.files[b].vals["state"].v == FileState.BUILT.value, self.files[b].vals["state"].v == FileState.VOLATILE.value),
                    )
                )
        # I4s: the same for an output that was detached together with its producer (creator link kept):
        # "a step marked succeeded has all its outputs built" -- a recycled subtree comes back as it is
        T = "I4s"
        for a in range(K if strong_i4 else 0):
            for b in range(K):
                e = z3.And(self.dep_edge(a, b), bz(self.steps[a].present), bz(self.files[b].present), self.creator_is(b, a))
                cons.add(
                    T,
                    z3.Implies(
                        z3.And(e, self.steps[a].vals["state"].v == StepState.SUCCEEDED.value),
                        z3.Or(self.files[b].vals["state"].v == FileState.BUILT.value, self.files[b].vals["state"].v == FileState.VOLATILE.value),
                    ),
                )
        self.inv_tags = cons.tags
        return list(cons)

    def acyclic(self):
        C = self.dep_closure()
        return z3.And(*[z3.Not(C[j][j]) for j in range(self.K)])

    # -- definitions of the cached scheduling attributes (oracles) ---------------------------------------
    def def_has_hash(self, j):
        return bz(self.t("step_hash").rows[j].present)

    def unavailable_input(self, f, dyn):
        """The file f (as input, dynamic or initial) blocks dispatch -- written from the statement:
        every initial input must be attached and BUILT or CONFIRMED; no input may be VOLATILE; an
        attached dynamic input must not be PLANNED or OUTDATED."""
        FileState, _, _ = enums()
        st = self.files[f].vals["state"].v
        det = self.nodes[f].vals["detached"].v == 1
        volatile = st == FileState.VOLATILE.value
        dyn_block = z3.And(z3.Not(det), z3.Or(st == FileState.PLANNED.value, st == FileState.OUTDATED.value))
        ini_block = z3.Or(det, z3.Not(z3.Or(st == FileState.BUILT.value, st == FileState.CONFIRMED.value)))
        return z3.Or(volatile, z3.And(dyn, dyn_block), z3.And(z3.Not(dyn), ini_block))

    def def_ready(self, j):
        blocks = []
        for d, r in enumerate(self.deps):
            for f in range(self.K):
                e = z3.And(bz(r.present), r.vals["sink"].v == j + 1, r.vals["source"].v == f + 1, bz(self.files[f].present))
                blocks.append(z3.And(e, self.unavailable_input(f, self.is_dyn(d))))
        return z3.Not(z3.Or(*blocks)) if blocks else z3.BoolVal(True)

    def def_safe(self, ignoring_hold=False):
        """safe[j]: every proper creator ancestor that is a step is RUNNING or SUCCEEDED (and not
        holding, unless ignoring_hold).  Least fixed point along the creator chain, K iterations;
        a step whose chain does not end at a non-step node within K links is unsafe only through
        what it meets on the way (cycles among detached nodes are excluded by the unwinding guard)."""
        _, StepState, _ = enums()
        K = self.K

        def ok_state(c):
            s = self.steps[c]
            good = z3.Or(s.vals["state"].v == StepState.RUNNING.value, s.vals["state"].v == StepState.SUCCEEDED.value)
            if not ignoring_hold:
                good = z3.And(good, s.vals["_holding"].v == 0)
            return good

        # safe_t[j] after t iterations, starting from "safe" for nodes without a step creator
        cur = [z3.BoolVal(True) for _ in range(K)]
        for _ in range(K):
            nxt = []
            for j in range(K):
                terms = []
                for c in range(K):
                    if c == j:
                        continue
                    step_creator = z3.And(self.creator_is(j, c), bz(self.steps[c].present))
                    terms.append(z3.Implies(step_creator, z3.And(ok_state(c), cur[c])))
                nxt.append(z3.And(*terms))
            cur = nxt
        return cur

    def regular_output_edge(self, s, f):
        FileState, _, _ = enums()
        return z3.And(self.dep_edge(s, f), bz(self.files[f].present), self.nodes[f].vals["detached"].v == 0, self.files[f].vals["state"].v != FileState.VOLATILE.value)

    def local_need(self, in_targets=None, under_dir=None):
        """One-hop definition of _implied_need using the *cached* values of the consuming steps."""
        return self.def_need(cached=True, in_targets=in_targets, under_dir=under_dir)

    def def_need(self, cached=False, in_targets=None, under_dir=None):
        """need*[j]: least fixed point (K iterations over the acyclic dependency graph).
        With cached=True: a single step of the equation, reading the consumers' cached columns."""
        _, _, Need = enums()
        K = self.K
        pool = self.ctx.pool
        tp = self.t("target_path").rows if "target_path" in self.ctx.tables else []
        td = self.t("target_dir").rows if "target_dir" in self.ctx.tables else []

        def at(v):
            return self.ctx.pool.atom(v) if isinstance(v, str) else v

        def label_in_targets(f):
            if in_targets is not None:
                return in_targets(self.nodes[f].vals["label"].v)
            return z3.Or(*[z3.And(bz(r.present), at(r.vals["path"].v) == self.nodes[f].vals["label"].v) for r in tp]) if tp else z3.BoolVal(False)

        def label_under_dir(f):
            lab = self.nodes[f].vals["label"].v
            if under_dir is not None:
                return under_dir(lab)
            return z3.Or(*[z3.And(bz(r.present), lab >= at(r.vals["path"].v), lab < at(r.vals["upper"].v)) for r in td]) if td else z3.BoolVal(False)

        base = []
        for j in range(K):
            s = self.steps[j]
            exact = z3.Or(*[z3.And(self.regular_output_edge(j, f), label_in_targets(f)) for f in range(K)])
            under = z3.And(s.vals["need"].v == Need.DEFAULT.value, z3.Or(*[z3.And(self.regular_output_edge(j, f), label_under_dir(f)) for f in range(K)]))
            b = s.vals["need"].v
            b = z3.If(z3.And(z3.Or(exact, under), b < Need.TARGET.value), z3.IntVal(Need.TARGET.value), b)
            base.append(b)
        cur = list(base)
        if cached:
            cur = [self.steps[j].vals["_implied_need"].v for j in range(K)]
        for _ in range(1 if cached else K):
            nxt = []
            for j in range(K):
                v = base[j]
                for f in range(K):
                    for t2 in range(K):
                        if t2 == j:
                            continue
                        e = z3.And(self.dep_edge(j, f), self.dep_edge(f, t2), bz(self.steps[t2].present), self.nodes[t2].vals["detached"].v == 0)
                        v = z3.If(z3.And(e, cur[t2] > v), cur[t2], v)
                nxt.append(v)
            cur = nxt
        return cur

    def resources_ok(self, j):
        """Every required resource of step j is defined and has enough free units (available minus
        the units held by RUNNING steps)."""
        _, StepState, _ = enums()
        req = self.t("step_resource").rows
        avail = self.t("available_resource").rows
        conj = []
        for r in req:
            mine = z3.And(bz(r.present), r.vals["node"].v == j + 1)
            used = z3.Sum(
                [
                    z3.If(
                        z3.And(bz(r2.present), r2.vals["name"].v == r.vals["name"].v, z3.Or(*[z3.And(r2.vals["node"].v == k + 1, bz(self.steps[k].present), self.steps[k].vals["state"].v == StepState.RUNNING.value) for k in range(self.K)])),
                        r2.vals["units"].v,
                        0,
                    )
                    for r2 in req
                ]
            )
            enough = z3.Or(*[z3.And(bz(a.present), a.vals["name"].v == r.vals["name"].v, a.vals["units"].v - used >= r.vals["units"].v) for a in avail])
            conj.append(z3.Implies(mine, enough))
        return z3.And(*conj) if conj else z3.BoolVal(True)
