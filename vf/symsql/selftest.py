"""Differential validation of the E-SQL engine against real SQLite.

Random *valid* concrete states are drawn as z3 models of the schema's own well-formedness
predicate (plus random presence hints), loaded both into a real in-memory SQLite database
(live schema, live triggers, connection from stepup.core.sqlite3.connect) and into the engine as
constants; each statement is executed on both sides and the resulting tables / result rows /
integrity errors must be identical.  A disagreement is a harness error.
"""

from __future__ import annotations

import random
import sqlite3

import z3

from . import live
from .dml import Engine
from .engine import Ctx
from .state import (
    concretise,
    load_concrete,
    make_ctx,
    read_concrete,
    sqlite_from_content,
    sqlite_read,
    symbolic_tables,
)
from .values import bz, is_sym

CAPS = {
    "node": 5,
    "step": 5,
    "file": 5,
    "step_hash": 5,
    "dependency": 5,
    "dynamic_dep": 5,
    "nglob": 1,
    "env_var": 2,
    "step_resource": 2,
    "available_resource": 2,
    "target_path": 2,
    "target_dir": 1,
    "path_list": 2,
    "node_list": 5,
    "check_after": 5,
    "changed_after": 5,
    "safe_update": 5,
    "*": 3,
}


def base_ctx(extra_pool=()):
    scripts = live.schema_scripts() + live.scheduler_temp_ddl()
    pool = list(live.DEFAULT_POOL) + live.hash_json_pool() + list(extra_pool)
    ctx = make_ctx(scripts, pool, live.IGNORED_TABLES, live.like_case_sensitive())
    return ctx, scripts


def typing_constraints(ctx: Ctx):
    """Domain typing beyond the schema: kinds, hash atoms, labels (used by self-test and checks)."""
    cons = []
    pool = ctx.pool
    kinds = [pool.atom(k) for k in ("root", "file", "step", "st")]
    hashes = [pool.atom(h) for h in live.hash_json_pool()]
    labels = [i for i, s in enumerate(pool.strings) if s not in ("root", "file", "step", "st") and not s.startswith("{")]
    node = ctx.tables["node"]
    for r in node.rows:
        cons.append(z3.Or(*[r.vals["kind"].v == k for k in kinds]))
        cons.append(z3.Or(*[r.vals["label"].v == a for a in labels]))
    for name, col in (("file", "hash"), ("step_hash", "hash")):
        for r in ctx.tables[name].rows:
            cons.append(z3.Or(*[r.vals[col].v == h for h in hashes]))
    for j, r in enumerate(node.rows):
        for name, kind in (("step", "step"), ("file", "file")):
            tr = ctx.tables[name].rows[j]
            cons.append(bz(tr.present) == z3.And(bz(r.present), r.vals["kind"].v == pool.atom(kind)))
    for r in ctx.tables["step"].rows:
        cons.append(r.vals["env_overrides"].n == True)  # noqa: E712
        cons.append(z3.And(r.vals["duration"].v >= 0, r.vals["duration"].v <= 4, r.vals["_tail_time"].v <= 8))
        cons.append(z3.And(r.vals["defer_count"].v <= 2, r.vals["_holding"].v <= 2))
    for name in ("nglob", "env_var"):
        for r in ctx.tables[name].rows:
            cons.append(bz(r.present) == False)  # noqa: E712
    for name, col in (("step_resource", "name"), ("available_resource", "name"), ("target_path", "path")):
        for r in ctx.tables[name].rows:
            cons.append(z3.Or(*[r.vals[col].v == a for a in labels if pool.strings[a] != ""]))
    for r in ctx.tables["step_resource"].rows:
        cons.append(r.vals["units"].v <= 3)
    for r in ctx.tables["available_resource"].rows:
        cons.append(z3.And(r.vals["units"].v >= 0, r.vals["units"].v <= 3))
    for r in ctx.tables["target_dir"].rows:
        cons.append(z3.And(r.vals["path"].v == pool.atom("d/"), r.vals["upper"].v == pool.atom("d0")))
    return cons


def random_states(seed, n, caps=CAPS):
    """Yield n concrete contents {table: rows}."""
    rng = random.Random(seed)
    ctx, scripts = base_ctx()
    cons = symbolic_tables(ctx, caps) + typing_constraints(ctx)
    # creator links are acyclic (a UNION ALL recursion over a creator cycle never terminates in
    # real SQLite either); dependency edges may be cyclic (those CTEs use UNION)
    K = caps["node"]
    rank = [z3.Int(f"crank[{j}]") for j in range(K)]
    for j, r in enumerate(ctx.tables["node"].rows):
        for c in range(K):
            if c != j:
                cons.append(z3.Implies(z3.And(bz(r.present), z3.Not(bz(r.vals["creator"].n)), r.vals["creator"].v == c + 1), rank[c] < rank[j]))
    presents = [r.present for ts in ctx.tables.values() for r in ts.rows if is_sym(r.present)]
    out = []
    tries = 0
    while len(out) < n and tries < n * 6:
        tries += 1
        s = z3.Solver()
        s.set("random_seed", rng.randint(0, 10**6))
        s.set("timeout", 20000)
        for c in cons:
            s.add(bz(c))
        hints = []
        for p in presents:
            x = rng.random()
            if x < 0.55:
                hints.append(p)
            elif x < 0.7:
                hints.append(z3.Not(p))
        # random value hints
        for ts in ctx.tables.values():
            for r in ts.rows:
                for cn, v in r.vals.items():
                    if is_sym(v.v) and z3.is_int(v.v) and rng.random() < 0.5:
                        col = ts.table.col(cn)
                        if col.kind == "t":
                            hints.append(v.v == rng.randrange(len(ctx.pool)))
                        elif cn in ("state",):
                            hints.append(v.v == rng.choice([11, 12, 13, 14, 15, 16, 17, 18, 21, 22, 23, 24, 25]))
                        elif cn in ("source", "sink", "creator"):
                            hints.append(v.v == rng.randint(1, caps["node"]))
                        else:
                            hints.append(v.v == rng.randint(0, 3))
        rng.shuffle(hints)
        hints = hints[:160]
        s.push()
        kept = 0
        s.set("timeout", 400)  # a hint that is not quickly compatible is simply dropped
        for h in hints:
            s.push()
            s.add(h)
            if s.check() == z3.sat:
                kept += 1
                # keep it: merge the frame by not popping (nested pushes are fine)
            else:
                s.pop()
        s.set("timeout", 20000)
        if s.check() != z3.sat:
            continue
        m = s.model()
        out.append(concretise(ctx, m))
    return out, ctx, scripts


def statements():
    """(name, sql, args) exercised by the differential test; all text is read live."""
    from stepup.core import scheduler as sch
    from stepup.core import step as stp
    from stepup.core import trellis as tr
    from stepup.core import workflow as wf
    from stepup.core import finalize as fin

    S = [
        ("EMPTY_SAFE_UPDATE", sch.EMPTY_SAFE_UPDATE, ()),
        ("FILL_SAFE_UPDATE", sch.FILL_SAFE_UPDATE, ()),
        ("APPLY_SAFE_UPDATE", sch.APPLY_SAFE_UPDATE, ()),
        ("SEED_CHECK_AFTER", sch.SEED_CHECK_AFTER, ()),
        ("UPDATE_CHECK_AFTER first", sch.UPDATE_CHECK_AFTER, {"first": True}),
        ("UPDATE_CHECK_AFTER later", sch.UPDATE_CHECK_AFTER, {"first": False}),
        ("PROPAGATE_CHECK_AFTER", sch.PROPAGATE_CHECK_AFTER, ()),
        ("RECOMPUTE_READY", sch.RECOMPUTE_READY, ()),
        ("SELECT_INPUTS", sch.SELECT_INPUTS, (2,)),
        ("COUNT_CHECK_AFTER", sch.COUNT_CHECK_AFTER, ()),
        ("RECONCILE_TARGET_DIRS", wf.RECONCILE_TARGET_DIRS, ()),
        ("RECURSIVE_CHECK_WITH_PRODUCTS", stp.RECURSIVE_CHECK_WITH_PRODUCTS, (2,)),
        ("RECURSIVE_CHECK_AFTER_SOURCES", stp.RECURSIVE_CHECK_AFTER_SOURCES, (3,)),
        ("RECURSIVELY_SET_DETACHED 1", tr.RECURSIVELY_SET_DETACHED, (2, True)),
        ("RECURSIVELY_SET_DETACHED 0", tr.RECURSIVELY_SET_DETACHED, (2, False)),
        ("CHECK_DETACHED_REACHABILITY", tr.CHECK_DETACHED_REACHABILITY, (1,)),
        ("RECURSE_SINKS+ALL", tr.RECURSE_SINKS + tr.SELECT_ALL_SINKS, (2,)),
        ("RECURSE_SINKS+CYCLIC", tr.RECURSE_SINKS + tr.SELECT_CYCLIC, (2, 3)),
        ("UNCONFIRMED_INPUTS", wf.UNCONFIRMED_INPUTS, (3,)),
        ("set step state", "UPDATE step SET state = ?, deferred = ? WHERE node = ?", (23, False, 2)),
        ("set step state2", "UPDATE step SET state = ?, deferred = ? WHERE node = ?", (21, True, 3)),
        ("set file state", "UPDATE file SET state = ? WHERE node = ?", (15, 3)),
        ("set file state2", "UPDATE file SET state = ? WHERE node = ?", (11, 4)),
        ("del dependency", "DELETE FROM dependency WHERE i = ?", (1,)),
        ("ins dependency", "INSERT INTO dependency(source, sink) VALUES (?, ?)", (2, 3)),
        ("ins dynamic_dep", "INSERT INTO dynamic_dep(i) VALUES (?)", (2,)),
        ("del dynamic_dep", "DELETE FROM dynamic_dep WHERE i = ?", (1,)),
        ("del step_hash", "DELETE FROM step_hash WHERE node = ?", (2,)),
        ("ins step_hash", "INSERT OR REPLACE INTO step_hash(node, hash) VALUES (?, ?)", (2, live.hash_json_pool()[0])),
        ("del node", "DELETE FROM node WHERE i = ?", (4,)),
        ("hold", "UPDATE step SET _holding = _holding + 1, _check_safe = 1 WHERE node = ?", (2,)),
        ("clear flag", "UPDATE step SET _check_safe = 0 WHERE _check_safe", ()),
        ("any flagged", "SELECT EXISTS(SELECT 1 FROM step WHERE _check_after)", ()),
        ("reset running", f"UPDATE step SET state = 24 WHERE state = 22", ()),
    ]
    upsert = "INSERT INTO file VALUES(:node, :state, :hash) ON CONFLICT DO UPDATE SET state = :state WHERE node = :node"
    for n in (2, 3, 4):
        S.append((f"file upsert PLANNED {n}", upsert, {"node": n, "state": 15, "hash": None}))
        S.append((f"file upsert UNCONFIRMED {n}", upsert, {"node": n, "state": 12, "hash": None}))
        S.append((f"file upsert OUTDATED {n}", upsert, {"node": n, "state": 17, "hash": live.hash_json_pool()[0]}))
    S += [
        ("node reparent", "UPDATE node SET creator = ?, detached = ? WHERE i = ?", (2, True, 3)),
        ("node orphan", "UPDATE node SET creator = NULL, detached = TRUE WHERE i = ?", (3,)),
        ("del sources of", "DELETE FROM dependency WHERE sink = ?", (3,)),
        ("find attached claim", "SELECT file.state, cnode.i, cnode.kind, cnode.label FROM node JOIN file ON node.i = file.node JOIN node AS cnode ON cnode.i = node.creator WHERE node.kind = 'file' AND NOT node.detached AND node.label = ?", ("a",)),
        ("detached leaves", "SELECT i, kind, label, creator FROM node WHERE detached AND NOT EXISTS (SELECT 1 FROM node AS cnode WHERE node.i = cnode.creator) AND NOT EXISTS (SELECT 1 FROM dependency WHERE node.i = dependency.source)", ()),
        ("defer count", "UPDATE step SET defer_count = defer_count + 1 WHERE node = ? RETURNING defer_count", (2,)),
    ]
    S.append(("SELECT_NEXT_STEP", sch.SELECT_NEXT_STEP.replace("INDEXED BY step_dispatch", ""), (31,)))
    for nm in ("UPDATE_OPTIONAL_STEPS",):
        pass
    return S


def run(seed=0, nstates=12, verbose=False):
    """Returns (#comparisons, list of disagreement descriptions)."""
    states, ctx0, scripts = random_states(seed, nstates)
    stmts = statements()
    ncmp = 0
    bad = []
    ddl = live.scheduler_temp_ddl()
    base_scripts = live.schema_scripts()
    for si, content in enumerate(states):
        for name, sql, args in stmts:
            con = sqlite_from_content(base_scripts, content, ddl)
            ctx, _ = base_ctx()
            load_concrete(ctx, content, CAPS)
            eng = Engine(ctx)
            # real
            real_err = None
            real_rows = None
            budget = [0]

            def _progress():
                budget[0] += 1
                return 1 if budget[0] > 2000 else 0  # abort a statement that runs away

            con.set_progress_handler(_progress, 10000)
            try:
                con.execute("BEGIN")
                cur = con.execute(sql, args)
                real_rows = cur.fetchall() if cur.description else None
                if "LIMIT 1" in sql and real_rows:
                    real_rows = real_rows[:1]
            except sqlite3.IntegrityError as exc:
                real_err = "IntegrityError"
            except sqlite3.OperationalError as exc:
                if "interrupted" in str(exc):
                    con.close()
                    continue  # real SQLite does not terminate on this state: outside the comparison
                raise
            # engine
            eng_err = None
            eng_rows = None
            try:
                res = eng.execute(sql, args)
                ab = [a for a in ctx.aborts if _true(a[0])]
                if ab:
                    eng_err = ab[0][1]
                if res.bag is not None:
                    eng_rows = []
                    for g, vals in res.bag.rows:
                        if _true(g):
                            from .state import _conc

                            eng_rows.append(tuple(_conc(ctx, v) for v in vals))
            except Exception as exc:  # noqa: BLE001
                bad.append(f"state {si} {name}: engine raised {type(exc).__name__}: {exc}")
                con.close()
                continue
            if any(_true(z3.Not(a)) for a in ctx.assumptions if "capacity" in " ".join(ctx.notes)):
                con.close()
                continue  # the bounded state has no room for this insert: outside the bound
            ncmp += 1
            if real_err != eng_err:
                bad.append(f"state {si} {name}: error sqlite={real_err} engine={eng_err} ({[a[2] for a in ctx.aborts if _true(a[0])]})")
            elif real_err is None:
                a = sqlite_read(con, ctx)
                b = read_concrete(ctx)
                for t in a:
                    if t in live.IGNORED_TABLES:
                        continue
                    if a[t] != b.get(t):
                        bad.append(f"state {si} {name}: table {t} differs\n   sqlite={a[t]}\n   engine={b.get(t)}\n   before={content.get(t)}")
                        break
                if real_rows is not None:
                    ra = sorted([tuple(_norm(x) for x in r) for r in real_rows], key=str)
                    rb = sorted([tuple(_norm(x) for x in r) for r in (eng_rows or [])], key=str)
                    if "LIMIT 1" in sql:
                        ok = (not ra and not rb) or (ra and rb)
                    else:
                        ok = ra == rb
                    if not ok:
                        bad.append(f"state {si} {name}: rows differ sqlite={ra} engine={rb}")
            con.close()
    return ncmp, bad


def _norm(x):
    if isinstance(x, float):
        return round(x, 9)
    if isinstance(x, bool):
        return int(x)
    return x


def _true(g):
    if isinstance(g, bool):
        return g
    return z3.is_true(z3.simplify(g))


if __name__ == "__main__":
    import sys

    n, bad = run(int(sys.argv[1]) if len(sys.argv) > 1 else 0, int(sys.argv[2]) if len(sys.argv) > 2 else 8)
    print("comparisons", n, "disagreements", len(bad))
    for b in bad[:30]:
        print(b)
