"""SQL values with three-valued logic over z3 terms, with aggressive constant folding.

A value is ``V(kind, n, v)``:
  kind 'i' integer, 'b' boolean (numeric 0/1), 'r' real, 't' text
  n    null flag: python bool or z3 Bool
  v    payload: python int/bool/Fraction/str, or z3 Int/Bool/Real; for text a python ``str`` or a
       z3 Int *atom*: the index of the string in the sorted pool of the context (so that ``<`` on
       atoms is BINARY collation on the pool strings).
"""

from __future__ import annotations

import bisect
from fractions import Fraction

import z3


class Unsupported(Exception):
    pass


class PoolMiss(Unsupported):
    pass


def is_sym(x):
    return isinstance(x, z3.ExprRef)


def bAnd(*xs):
    out = []
    for x in xs:
        if x is True:
            continue
        if x is False:
            return False
        out.append(x)
    if not out:
        return True
    return out[0] if len(out) == 1 else z3.And(*out)


def bOr(*xs):
    out = []
    for x in xs:
        if x is False:
            continue
        if x is True:
            return True
        out.append(x)
    if not out:
        return False
    return out[0] if len(out) == 1 else z3.Or(*out)


def bNot(x):
    if x is True:
        return False
    if x is False:
        return True
    return z3.Not(x)


def bIte(c, a, b):
    """ite over python/z3 scalars of the same sort."""
    if c is True:
        return a
    if c is False:
        return b
    if not is_sym(a) and not is_sym(b) and type(a) is type(b) and a == b:
        return a
    if is_sym(a) and is_sym(b) and a.eq(b):
        return a
    return z3.If(c, _lift(a, b), _lift(b, a))


def _lift(x, other):
    if is_sym(x):
        if is_sym(other) and z3.is_real(other) and z3.is_int(x):
            return z3.ToReal(x)
        return x
    if isinstance(x, bool):
        return z3.BoolVal(x)
    if isinstance(x, int):
        if is_sym(other) and z3.is_real(other):
            return z3.RealVal(x)
        return z3.IntVal(x)
    if isinstance(x, Fraction):
        return z3.RealVal(x)
    if isinstance(x, float):
        return z3.RealVal(Fraction(x).limit_denominator(10**9))
    raise Unsupported(f"cannot lift {type(x).__name__}")


def bz(x):
    return z3.BoolVal(x) if isinstance(x, bool) else x


class V:
    __slots__ = ("k", "n", "v")

    def __init__(self, k, n, v):
        self.k = k
        self.n = n
        self.v = v

    def __repr__(self):
        return f"V({self.k},{self.n},{self.v})"

    @property
    def concrete(self):
        return not is_sym(self.n) and not is_sym(self.v)


NULL = V("i", True, 0)


def I(x):
    return V("i", False, x)


def B(x):
    return V("b", False, x)


def R(x):
    if isinstance(x, float):
        x = Fraction(x).limit_denominator(10**9)
    return V("r", False, x)


def T(x):
    return V("t", False, x)


def from_python(x):
    if x is None:
        return NULL
    if isinstance(x, bool):
        return I(int(x))
    if isinstance(x, int):
        return I(x)
    if isinstance(x, float):
        return R(x)
    if isinstance(x, str):
        return T(x)
    if isinstance(x, V):
        return x
    if type(x).__name__ == "LazyText":
        return V("t", False, x.term if x._val is None else x._val)
    if type(x).__name__ == "LazyInt":
        return V("i", False, x.term if x._val is None else x._val)
    if hasattr(x, "__fspath__"):
        return T(str(x))
    if hasattr(x, "value") and isinstance(x.value, int):  # enums
        return I(x.value)
    raise Unsupported(f"parameter of type {type(x).__name__}")


class Pool:
    """Sorted pool of concrete strings; atoms are indices."""

    def __init__(self, strings):
        self.strings = sorted(set(strings))
        self.index = {s: i for i, s in enumerate(self.strings)}

    def atom(self, s: str) -> int:
        try:
            return self.index[s]
        except KeyError:
            raise PoolMiss(f"string {s!r} is not in the pool {self.strings}") from None

    def __len__(self):
        return len(self.strings)

    def valid(self, a):
        return z3.And(a >= 0, a < len(self.strings))


def to_int(x: V) -> V:
    """Numeric view of a boolean."""
    if x.k == "b":
        v = x.v
        if isinstance(v, bool):
            return V("i", x.n, int(v))
        return V("i", x.n, z3.If(v, 1, 0))
    return x


def truth(x: V):
    """SQL truthiness for WHERE/ON/WHEN: true iff not NULL and non-zero."""
    if x.k == "b":
        return bAnd(bNot(x.n), x.v)
    if x.k in ("i", "r"):
        v = x.v
        nz = (v != 0) if not is_sym(v) else (v != 0)
        return bAnd(bNot(x.n), nz)
    raise Unsupported("truth value of text")


def as_bool(x: V) -> V:
    if x.k == "b":
        return x
    if x.k in ("i", "r"):
        v = x.v
        return V("b", x.n, (v != 0))
    raise Unsupported("text used as boolean")


def v_not(x: V) -> V:
    x = as_bool(x)
    return V("b", x.n, bNot(x.v))


def v_and(a: V, b: V) -> V:
    a, b = as_bool(a), as_bool(b)
    at, af = bAnd(bNot(a.n), a.v), bAnd(bNot(a.n), bNot(a.v))
    bt, bf = bAnd(bNot(b.n), b.v), bAnd(bNot(b.n), bNot(b.v))
    t = bAnd(at, bt)
    f = bOr(af, bf)
    return V("b", bAnd(bNot(t), bNot(f)), t)


def v_or(a: V, b: V) -> V:
    a, b = as_bool(a), as_bool(b)
    at, af = bAnd(bNot(a.n), a.v), bAnd(bNot(a.n), bNot(a.v))
    bt, bf = bAnd(bNot(b.n), b.v), bAnd(bNot(b.n), bNot(b.v))
    t = bOr(at, bt)
    f = bAnd(af, bf)
    return V("b", bAnd(bNot(t), bNot(f)), t)


def _num_pair(a: V, b: V):
    a, b = to_int(a), to_int(b)
    if a.k == "t" or b.k == "t":
        raise Unsupported("numeric operation on text")
    k = "r" if "r" in (a.k, b.k) else "i"
    return a, b, k


def _payload(x, k):
    """payload coerced to kind k (int->real)."""
    v = x.v
    if k == "r" and x.k == "i":
        if is_sym(v):
            return z3.ToReal(v)
        return Fraction(v)
    return v


def text_cmp_payload(ctx, a: V, b: V):
    """Return comparable payloads (ints) for two text values + whether equality is possible."""
    av, bv = a.v, b.v
    if isinstance(av, str) and isinstance(bv, str):
        return av, bv, "str"
    pool = ctx.pool
    if isinstance(av, str):
        av2 = pool.index.get(av)
        if av2 is None:
            # not in the pool: never equal to an atom; order by insertion point - 0.5
            return ("miss", bisect.bisect_left(pool.strings, av)), bv, "missL"
        return av2, bv, "atom"
    if isinstance(bv, str):
        bv2 = pool.index.get(bv)
        if bv2 is None:
            return av, ("miss", bisect.bisect_left(pool.strings, bv)), "missR"
        return av, bv2, "atom"
    return av, bv, "atom"


def v_cmp(ctx, op: str, a: V, b: V) -> V:
    n = bOr(a.n, b.n)
    if a.k == "t" or b.k == "t":
        if a.k != b.k:
            if (a.n is True) or (b.n is True):
                return V("b", True, False)
            raise Unsupported(f"comparison between text and {a.k if a.k != 't' else b.k}")
        x, y, mode = text_cmp_payload(ctx, a, b)
        if mode == "missL":
            # a is a concrete string outside the pool with insertion point p: a < atom iff p <= atom
            p = x[1]
            res = {"=": False, "!=": True, "<": p <= y, "<=": p <= y, ">": y < p, ">=": y < p}[op]
            return V("b", n, res)
        if mode == "missR":
            p = y[1]
            res = {"=": False, "!=": True, "<": x < p, "<=": x < p, ">": x >= p, ">=": x >= p}[op]
            return V("b", n, res)
    else:
        a, b, k = _num_pair(a, b)
        x, y = _payload(a, k), _payload(b, k)
    if op == "=":
        r = x == y
    elif op == "!=":
        r = x != y
    elif op == "<":
        r = x < y
    elif op == "<=":
        r = x <= y
    elif op == ">":
        r = x > y
    elif op == ">=":
        r = x >= y
    else:
        raise Unsupported(op)
    if isinstance(r, bool) or is_sym(r):
        return V("b", n, r)
    return V("b", n, bool(r))


def v_is(ctx, a: V, b: V) -> V:
    if a.n is True and b.n is True:
        return B(True)
    if a.n is True:
        return V("b", False, b.n if b.n is not False else False)
    if b.n is True:
        return V("b", False, a.n if a.n is not False else False)
    eq = v_cmp(ctx, "=", V(a.k, False, a.v), V(b.k, False, b.v)).v
    return V("b", False, bOr(bAnd(a.n, b.n), bAnd(bNot(a.n), bNot(b.n), eq)))


def v_arith(op: str, a: V, b: V) -> V:
    a, b, k = _num_pair(a, b)
    n = bOr(a.n, b.n)
    x, y = _payload(a, k), _payload(b, k)
    if op == "+":
        return V(k, n, x + y)
    if op == "-":
        return V(k, n, x - y)
    if op == "*":
        if is_sym(x) and is_sym(y):
            raise Unsupported("nonlinear multiplication")
        return V(k, n, x * y)
    if op == "/":
        if is_sym(y):
            raise Unsupported("division by a symbolic value")
        if y == 0:
            return V(k, True, 0)
        if k == "i":
            if is_sym(x):
                # SQLite truncates toward zero
                q = z3.If(x >= 0, x / y, -((-x) / y)) if y > 0 else z3.If(x >= 0, -(x / (-y)), (-x) / (-y))
                return V("i", n, q)
            q = abs(x) // abs(y)
            return V("i", n, q if (x >= 0) == (y > 0) else -q)
        return V("r", n, x / y if is_sym(x) else Fraction(x) / Fraction(y))
    raise Unsupported(f"arithmetic {op}")


def v_ite(ctx, c, a: V, b: V) -> V:
    """If c then a else b (c: python bool or z3 Bool)."""
    if c is True:
        return a
    if c is False:
        return b
    if a.n is True and b.n is True:
        return a
    # unify kinds
    ka, kb = a.k, b.k
    if a.n is True:
        ka = kb
        a = V(kb, True, default_payload(ctx, kb))
    if b.n is True:
        kb = ka
        b = V(ka, True, default_payload(ctx, ka))
    if ka != kb:
        if {ka, kb} <= {"i", "b"}:
            a, b = to_int(a), to_int(b)
            ka = kb = "i"
        elif {ka, kb} <= {"i", "b", "r"}:
            a, b = to_int(a), to_int(b)
            a = V("r", a.n, _payload(a, "r"))
            b = V("r", b.n, _payload(b, "r"))
            ka = kb = "r"
        else:
            raise Unsupported(f"ite between {ka} and {kb}")
    av, bv = a.v, b.v
    if ka == "t":
        if isinstance(av, str) and isinstance(bv, str) and av == bv:
            v = av
        else:
            if isinstance(av, str):
                av = ctx.pool.atom(av)
            if isinstance(bv, str):
                bv = ctx.pool.atom(bv)
            v = bIte(c, av, bv)
    else:
        v = bIte(c, av, bv)
    return V(ka, bIte(c, a.n, b.n), v)


def default_payload(ctx, k):
    return {"i": 0, "b": False, "r": Fraction(0), "t": 0}[k]


def v_eq_payload(ctx, a: V, b: V):
    """Boolean: a and b are the same SQL value (NULL == NULL here): used for keys/dedup."""
    return v_is(ctx, a, b).v
