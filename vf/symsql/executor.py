"""Fork-on-concretise executor: runs the real, unmodified Python glue of stepup-core natively
against a symbolic database.

Python only ever sees ordinary ints / strings / None / tuples.  Whenever a value crosses from
SQL into Python (``fetchone``, iteration, ``rowcount``, ``lastrowid``, a feasible integrity
error), the executor asks the solver which values the term can take under the current path
condition, picks one, records the equality in the path condition and later backtracks
(depth-first) to the last choice with an untried feasible value, re-executing the body from the
start with the recorded decision prefix.  All feasible values are explored, so within the bound
this is complete, not sampling.
"""

from __future__ import annotations

import sqlite3
import os
import time

import z3

from .dml import Engine, Result
from .engine import Ctx
from .values import NULL, I, Unsupported, V, bNot, bOr, bz, is_sym


class PathLimit(Exception):
    pass


class Infeasible(BaseException):
    """The current path condition became unsatisfiable (should not happen on replay)."""


class Run:
    def __init__(self, explorer, prefix):
        self.explorer = explorer
        self.prefix = list(prefix)
        self.decisions = []  # (kind, options, chosen index, description)
        self.solver = z3.Solver()
        self.solver.set("timeout", explorer.timeout_ms)
        self.pc = []
        self.n_checks = 0
        self.solver_s = 0.0
        self.events = []
        self.max_values = explorer.max_values
        self.lazy_ints = getattr(explorer, "lazy_ints", True)
        self.lazy_text = getattr(explorer, "lazy_text", False)

    # -- solver ---------------------------------------------------------------------------------
    def assume(self, c):
        if c is True:
            return
        c = bz(c)
        self.pc.append(c)
        self.solver.add(c)

    def _check(self, *extra):
        t0 = time.time()
        self.solver.push()
        for e in extra:
            self.solver.add(bz(e))
        r = self.solver.check()
        self.solver.pop()
        self.n_checks += 1
        self.solver_s += time.time() - t0
        if r == z3.unknown:
            raise Unsupported(f"solver returned unknown on a feasibility check: {self.solver.reason_unknown()}")
        return r == z3.sat

    def query(self, *extra):
        """Satisfiability of pc AND extra -> ('sat', model) | ('unsat', None) | ('unknown', None)."""
        t0 = time.time()
        self.solver.push()
        for e in extra:
            self.solver.add(bz(e))
        r = self.solver.check()
        m = self.solver.model() if r == z3.sat else None
        self.solver.pop()
        self.n_checks += 1
        dt = time.time() - t0
        self.solver_s += dt
        return str(r), m, dt

    # -- decisions ------------------------------------------------------------------------------
    def _decide(self, kind, compute_options, desc, apply):
        k = len(self.decisions)
        if k < len(self.prefix):
            pk, options, chosen = self.prefix[k]
            if pk != kind:
                raise RuntimeError(f"non-deterministic replay: expected {pk}, got {kind} ({desc})")
        else:
            options = compute_options()
            if not options:
                raise Infeasible()
            chosen = 0
        self.decisions.append((kind, options, chosen))
        if k >= len(self.prefix) and len(options) > 1:
            h = self.explorer.fork_hist
            h[desc] = h.get(desc, 0) + len(options) - 1
        val = options[chosen]
        apply(val)
        return val

    def decide_bool(self, cond, desc=""):
        if isinstance(cond, bool):
            return cond
        s = z3.simplify(cond)
        if z3.is_true(s):
            return True
        if z3.is_false(s):
            return False

        def options():
            out = []
            if self._check(cond):
                out.append(True)
            if self._check(z3.Not(cond)):
                out.append(False)
            return out

        return self._decide("bool", options, desc, lambda v: self.assume(cond if v else z3.Not(cond)))

    def decide_term(self, term, desc=""):
        """Concretise an Int/Real term to a python number."""
        if not is_sym(term):
            return term
        s = z3.simplify(term)
        if z3.is_int_value(s):
            return s.as_long()
        if z3.is_rational_value(s):
            from fractions import Fraction

            return Fraction(s.numerator_as_long(), s.denominator_as_long())

        def options():
            vals = []
            self.solver.push()
            try:
                while True:
                    t0 = time.time()
                    r = self.solver.check()
                    self.n_checks += 1
                    self.solver_s += time.time() - t0
                    if r == z3.unknown:
                        raise Unsupported("solver unknown while enumerating values")
                    if r != z3.sat:
                        break
                    mv = self.solver.model().eval(term, model_completion=True)
                    vals.append(mv)
                    if len(vals) > self.max_values:
                        raise Unsupported(f"more than {self.max_values} feasible values for {desc or term}")
                    self.solver.add(term != mv)
            finally:
                self.solver.pop()
            return sorted(vals, key=lambda x: x.as_fraction() if z3.is_rational_value(x) else x.as_long())

        val = self._decide("value", options, desc, lambda v: self.assume(term == v))
        if z3.is_int_value(val):
            return val.as_long()
        from fractions import Fraction

        return Fraction(val.numerator_as_long(), val.denominator_as_long())

    def decide_value(self, v: V, ctx: Ctx, desc=""):
        """Concretise an SQL value to what the sqlite3 module would hand to Python."""
        if self.decide_bool(v.n, desc + " is null") if not isinstance(v.n, bool) else v.n:
            return None
        if v.k == "b":
            pv = v.v
            if isinstance(pv, bool):
                return int(pv)
            return int(self.decide_bool(pv, desc))
        if v.k == "t":
            if isinstance(v.v, str):
                return v.v
            if self.lazy_text:
                sv = z3.simplify(v.v)
                if not z3.is_int_value(sv):
                    return LazyText(self, v.v, ctx.pool, desc)
            idx = self.decide_term(v.v, desc)
            return ctx.pool.strings[idx]
        if v.k == "i" and is_sym(v.v) and self.lazy_ints:
            sv = z3.simplify(v.v)
            if not z3.is_int_value(sv):
                return LazyInt(self, v.v, desc)
        x = self.decide_term(v.v, desc)
        if v.k == "r":
            return float(x)
        return int(x)


class LazyInt:
    """An integer that crossed from SQL into Python but has not been looked at yet.

    Comparisons with numbers fork two ways on the symbolic comparison; passing it back to SQL as
    a parameter keeps it symbolic; anything else (hashing, indexing, arithmetic with the concrete
    world, formatting) forces it: all feasible values are enumerated as for any other value."""

    __slots__ = ("run", "term", "_val", "desc")

    def __init__(self, run, term, desc=""):
        self.run = run
        self.term = term
        self._val = None
        self.desc = desc

    def force(self):
        if self._val is None:
            self._val = int(self.run.decide_term(self.term, self.desc))
        return self._val

    def _cmp(self, other, op):
        if self._val is not None:
            return op(self._val, other)
        if isinstance(other, LazyInt):
            other = other.term if other._val is None else other._val
        if isinstance(other, bool):
            other = int(other)
        if not isinstance(other, (int, z3.ArithRef)):
            if hasattr(other, "value") and isinstance(other.value, int):
                other = other.value
            else:
                return NotImplemented
        return self.run.decide_bool(op(self.term, other), f"{self.desc} cmp")

    def __gt__(self, o):
        return self._cmp(o, lambda a, b: a > b)

    def __ge__(self, o):
        return self._cmp(o, lambda a, b: a >= b)

    def __lt__(self, o):
        return self._cmp(o, lambda a, b: a < b)

    def __le__(self, o):
        return self._cmp(o, lambda a, b: a <= b)

    def __eq__(self, o):
        if o is None:
            return False
        r = self._cmp(o, lambda a, b: a == b)
        return r

    def __ne__(self, o):
        r = self.__eq__(o)
        return r if r is NotImplemented else not r

    def __bool__(self):
        if self._val is not None:
            return self._val != 0
        return self.run.decide_bool(self.term != 0, f"{self.desc} != 0")

    def __hash__(self):
        return hash(self.force())

    def __index__(self):
        return self.force()

    def __int__(self):
        return self.force()

    def __float__(self):
        return float(self.force())

    def __repr__(self):
        return f"LazyInt({self._val if self._val is not None else self.term})"

    def __str__(self):
        return str(self.force())

    def __format__(self, spec):
        return format(self.force(), spec)

    def __add__(self, o):
        return self.force() + o

    __radd__ = __add__

    def __sub__(self, o):
        return self.force() - o

    def __rsub__(self, o):
        return o - self.force()

    def __mul__(self, o):
        return self.force() * o

    __rmul__ = __mul__


class LazyText:
    """A text value (atom of the string pool) that crossed from SQL into Python but has not been
    looked at yet.  Labels mostly travel through the real code untouched (constructor arguments of
    node objects, log messages that are never formatted, parameters of the next statement):
    handing it back to SQL keeps it symbolic; comparing it with a string forks two ways; anything
    else forces it (all feasible pool strings are enumerated as for any other value)."""

    __slots__ = ("run", "term", "pool", "_val", "desc")

    def __init__(self, run, term, pool, desc=""):
        self.run = run
        self.term = term
        self.pool = pool
        self._val = None
        self.desc = desc

    def force(self):
        if self._val is None:
            self._val = self.pool.strings[int(self.run.decide_term(self.term, self.desc))]
        return self._val

    def __eq__(self, o):
        if self._val is not None:
            return self._val == (o.force() if isinstance(o, LazyText) else o)
        if isinstance(o, LazyText):
            if o._val is None:
                return self.run.decide_bool(self.term == o.term, f"{self.desc} ==")
            o = o._val
        if isinstance(o, str):
            idx = self.pool.index.get(str(o))
            if idx is None:
                return False
            return self.run.decide_bool(self.term == idx, f"{self.desc} == {o!r}")
        return False

    def __ne__(self, o):
        return not self.__eq__(o)

    def __hash__(self):
        return hash(self.force())

    def __str__(self):
        return self.force()

    def __repr__(self):
        return f"LazyText({self._val if self._val is not None else self.term})"

    def __fspath__(self):
        return self.force()

    def __format__(self, spec):
        return format(self.force(), spec)

    def __len__(self):
        return len(self.force())

    def __iter__(self):
        return iter(self.force())

    def __getitem__(self, k):
        return self.force()[k]

    def __contains__(self, x):
        return x in self.force()

    def __add__(self, o):
        return self.force() + o

    def __radd__(self, o):
        return o + self.force()

    def __lt__(self, o):
        return self.force() < str(o)

    def __le__(self, o):
        return self.force() <= str(o)

    def __gt__(self, o):
        return self.force() > str(o)

    def __ge__(self, o):
        return self.force() >= str(o)

    def __getattr__(self, name):
        # str methods (startswith, endswith, split, ...) act on the forced value
        if name.startswith("__"):
            raise AttributeError(name)
        return getattr(self.force(), name)


class LazyRows(list):
    """Result of fetchall(): rows stay symbolic until Python looks at them; handing the list back
    to executemany() inserts the guarded rows without enumerating which of them exist."""

    def __init__(self, cursor):
        super().__init__()
        self._cursor = cursor
        self._forced = False

    def _force(self):
        if not self._forced:
            self._forced = True
            while True:
                r = self._cursor.fetchone()
                if r is None:
                    break
                super().append(r)

    def guarded(self):
        bag = self._cursor.res.bag
        return [] if bag is None else bag.rows[self._cursor.pos :]

    def __iter__(self):
        self._force()
        return super().__iter__()

    def __len__(self):
        self._force()
        return super().__len__()

    def __getitem__(self, i):
        self._force()
        return super().__getitem__(i)

    def __bool__(self):
        self._force()
        return super().__len__() > 0

    def __eq__(self, other):
        self._force()
        return list(self) == other

    def __repr__(self):
        return f"LazyRows(forced={self._forced})"


class SymCursor:
    def __init__(self, db: "SymDB", res: Result):
        self.db = db
        self.res = res
        self.pos = 0
        self._rowcount = None
        self.description = (("col",),) if res.bag is not None else None
        self.sql_tag = db.log[-1][:48] if db.log else ""

    def fetchone(self):
        bag = self.res.bag
        if bag is None:
            return None
        run = self.db.run
        while self.pos < len(bag.rows):
            g, vals = bag.rows[self.pos]
            self.pos += 1
            tag = self.sql_tag
            if run.decide_bool(g, f"row present [{tag}]"):
                return tuple(run.decide_value(v, self.db.ctx, f"column {i} [{tag}]") for i, v in enumerate(vals))
        return None

    def fetchall(self):
        return LazyRows(self)

    def __iter__(self):
        return self

    def __next__(self):
        r = self.fetchone()
        if r is None:
            raise StopIteration
        return r

    @property
    def rowcount(self):
        if self._rowcount is None:
            rc = self.res.rowcount
            self._rowcount = LazyInt(self.db.run, rc, "rowcount") if is_sym(rc) else rc
        return self._rowcount

    @property
    def lastrowid(self):
        lr = self.res.lastrowid
        if lr is None:
            return None
        return self.db.run.decide_value(lr, self.db.ctx, "lastrowid")


class SymDB:
    """Duck-typed stand-in for stepup.core.sqlite3.DBSession."""

    sqllog = None

    def __init__(self, ctx: Ctx, run: Run):
        self.ctx = ctx
        self.run = run
        self.engine = Engine(ctx)
        self.log = []
        self._seen_assumptions = 0
        self._sync()

    def _sync(self):
        new = self.ctx.assumptions[self._seen_assumptions :]
        self._seen_assumptions = len(self.ctx.assumptions)
        for a in new:
            self.run.assume(a)

    async def __aenter__(self):
        return None

    async def __aexit__(self, *exc):
        return False

    def execute(self, sql, args=()):
        if isinstance(args, str):
            raise TypeError("args must not be a string")
        if not isinstance(args, dict):
            args = list(args)
        snapshot = self.ctx.copy_state()
        self.ctx.aborts = []
        res = self.engine.execute(sql, args)
        self._sync()
        self.log.append(" ".join(sql.split())[:80])
        aborts = self.ctx.aborts
        self.ctx.aborts = []
        if aborts:
            anyc = bOr(*[c for c, _, _ in aborts])
            if self.run.decide_bool(anyc, "integrity error"):
                self.ctx.tables = snapshot
                for c, kind, msg in aborts:
                    if self.run.decide_bool(c, msg):
                        raise sqlite3.IntegrityError(msg)
                raise sqlite3.IntegrityError("constraint failed")
        return SymCursor(self, res)

    def executemany(self, sql, seq_of_args):
        total = 0
        last = None
        if isinstance(seq_of_args, LazyRows) and not seq_of_args._forced:
            # guarded insertion: no enumeration of which rows exist
            from .dml import bind_params
            from .engine import Params, Scope
            from .parse import parse
            import lark

            snapshot = self.ctx.copy_state()
            self.ctx.aborts = []
            tree = [c for c in parse(sql).children if isinstance(c, lark.Tree)][0]
            for g, vals in seq_of_args.guarded():
                params = Params(list(vals))
                st = bind_params(tree, params)
                self.engine.statement(st, Scope(None, params), g)
            self._sync()
            aborts, self.ctx.aborts = self.ctx.aborts, []
            if aborts:
                anyc = bOr(*[c for c, _, _ in aborts])
                if self.run.decide_bool(anyc, "integrity error"):
                    self.ctx.tables = snapshot
                    raise sqlite3.IntegrityError(aborts[0][2])
            return SymCursor(self, Result(rowcount=-1, kind="many"))
        for args in seq_of_args:
            last = self.execute(sql, args)
            rc = last.res.rowcount
            total = total + rc if not isinstance(rc, int) or rc >= 0 else total
        res = Result(rowcount=total, kind="many")
        return SymCursor(self, res)


class PathResult:
    def __init__(self, run, outcome, value, db):
        self.run = run
        self.outcome = outcome  # "return" | "raise"
        self.value = value
        self.db = db


class Explorer:
    """Depth-first exploration of all decision sequences of `body(run)`."""

    def __init__(self, max_paths=400, timeout_ms=60000, max_values=12):
        self.max_paths = max_paths
        self.timeout_ms = timeout_ms
        self.max_values = max_values
        self.paths = 0
        self.solver_s = 0.0
        self.n_checks = 0
        self.fork_hist = {}

    def explore(self, body, on_path, workers=1, state=None):
        """body(run) -> (db, callable) is re-executed per path; on_path(PathResult) checks it.

        With workers > 1 the open prefixes are shared out to forked worker processes once there are
        enough of them; `state` (mark() / since(mark) / absorb(payload)) carries what on_path
        recorded in a worker back to this process."""
        stack = [[]]
        if workers <= 1 or state is None:
            self._run_stack(stack, body, on_path)
            return self.paths
        # breadth first until there are many open prefixes: shallow prefixes stand for large subtrees,
        # so splitting them further evens out the shares
        self._run_stack(stack, body, on_path, stop=lambda st: len(st) >= workers * 12 or self.paths >= 4 * workers, fifo=True)
        if not stack:
            return self.paths
        stack.sort(key=len)
        import pickle
        import tempfile
        import traceback

        shares = [stack[i::workers] for i in range(workers)]
        children = []
        for share in shares:
            if not share:
                continue
            fd, path = tempfile.mkstemp(prefix="explore_", suffix=".pkl")
            os.close(fd)
            pid = os.fork()
            if pid == 0:
                code = 0
                try:
                    mark = state.mark()
                    self.paths, self.solver_s, self.n_checks, self.fork_hist = 0, 0.0, 0, {}
                    status = ("ok", "")
                    try:
                        self._run_stack(list(reversed(share)), body, on_path)
                    except PathLimit as exc:
                        status = ("pathlimit", str(exc))
                    except Unsupported as exc:
                        status = ("unsupported", str(exc))
                    payload = (status, self.paths, self.solver_s, self.n_checks, self.fork_hist, state.since(mark))
                    with open(path, "wb") as fh:
                        pickle.dump(payload, fh)
                except BaseException:  # noqa: BLE001
                    try:
                        with open(path, "wb") as fh:
                            pickle.dump((("error", traceback.format_exc()[-2000:]), 0, 0.0, 0, {}, None), fh)
                    except Exception:  # noqa: BLE001
                        pass
                    code = 1
                finally:
                    os._exit(code)
            children.append((pid, path))
        problems = []
        for pid, path in children:
            os.waitpid(pid, 0)
            try:
                with open(path, "rb") as fh:
                    status, paths, solver_s, n_checks, hist, payload = pickle.load(fh)
            except Exception as exc:  # noqa: BLE001
                status, paths, solver_s, n_checks, hist, payload = ("error", f"no result from worker: {exc}"), 0, 0.0, 0, {}, None
            finally:
                try:
                    os.unlink(path)
                except OSError:
                    pass
            self.paths += paths
            self.solver_s += solver_s
            self.n_checks += n_checks
            for k, v in hist.items():
                self.fork_hist[k] = self.fork_hist.get(k, 0) + v
            if payload is not None:
                state.absorb(payload)
            if status[0] != "ok":
                problems.append(status)
        for kind, msg in problems:
            if kind == "pathlimit":
                raise PathLimit(msg + " (in a worker)")
            if kind == "unsupported":
                raise Unsupported(msg)
            raise RuntimeError(f"exploration worker failed: {msg}")
        return self.paths

    def _run_stack(self, stack, body, on_path, stop=None, fifo=False):
        while stack:
            if stop is not None and stop(stack):
                return
            prefix = stack.pop(0) if fifo else stack.pop()
            if self.paths >= self.max_paths:
                raise PathLimit(f"more than {self.max_paths} paths")
            run = Run(self, prefix)
            self.paths += 1
            outcome, value, db = "return", None, None
            try:
                try:
                    db, thunk = body(run)
                    value = thunk()
                except Infeasible:
                    outcome = "infeasible"
                except (Unsupported, PathLimit):
                    raise
                except Exception as exc:  # noqa: BLE001 - the code under test raised
                    outcome, value = "raise", exc
                if outcome != "infeasible":
                    if db is not None:
                        db._sync()
                    on_path(PathResult(run, outcome, value, db))
            finally:
                self.solver_s += run.solver_s
                self.n_checks += run.n_checks
            # schedule alternatives: for each decision made beyond the prefix, the untried options
            for k in range(len(run.decisions) - 1, len(prefix) - 1, -1):
                kind, options, chosen = run.decisions[k]
                for alt in range(len(options) - 1, chosen, -1):
                    stack.append([(d[0], d[1], d[2]) for d in run.decisions[:k]] + [(kind, options, alt)])


def drive(coro):
    """Run a coroutine that never really suspends."""
    try:
        coro.send(None)
    except StopIteration as stop:
        return stop.value
    raise RuntimeError("coroutine suspended on a real awaitable")
