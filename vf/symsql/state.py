"""Bounded relational states: symbolic construction, well-formedness (the schema itself as the
validity predicate), concretisation from a z3 model, loading into / reading from real SQLite."""

from __future__ import annotations

import sqlite3
from fractions import Fraction

import z3

from .dml import Engine
from .engine import Ctx, Row, Scope, TableState, Params
from .schema import Schema, Table
from .values import NULL, I, Pool, R, T, V, as_bool, bAnd, bNot, bOr, bz, is_sym, v_eq_payload


def tied_pks(table: Table, cap: int):
    if len(table.pk) == 1 and table.col(table.pk[0]).type.upper() == "INTEGER":
        return list(range(1, cap + 1))
    return None


def make_ctx(schema_scripts, pool_strings, ignore_tables=(), like_case_sensitive=True) -> Ctx:
    schema = Schema()
    for s in schema_scripts:
        schema.load(s)
    ctx = Ctx(schema, Pool(pool_strings), ignore_tables)
    ctx.like_case_sensitive = like_case_sensitive
    return ctx


def empty_tables(ctx: Ctx, caps: dict):
    """Create all-absent slots for every (non-ignored) table in the schema."""
    for name, t in ctx.schema.tables.items():
        if name in ctx.ignore_tables:
            continue
        cap = caps.get(name, caps.get("*", 3))
        ts = TableState(t, [Row(False, {c.name: NULL for c in t.columns}) for _ in range(cap)])
        ts.tied_pk = tied_pks(t, cap)
        if ts.tied_pk is not None:
            for j, r in enumerate(ts.rows):
                r.vals[t.pk[0]] = I(ts.tied_pk[j])
        ctx.tables[name] = ts


def symbolic_tables(ctx: Ctx, caps: dict, prefix="s", fixed=None):
    """Fresh symbolic content for every table; returns the list of well-formedness constraints.

    `fixed` may map table name -> list of python dict rows (concrete content) to pin a table.
    """
    cons = []
    fixed = fixed or {}
    for name, t in ctx.schema.tables.items():
        if name in ctx.ignore_tables:
            continue
        cap = caps.get(name, caps.get("*", 3))
        tied = tied_pks(t, cap)
        rows = []
        if name in fixed:
            for j in range(cap):
                if j < len(fixed[name]):
                    d = fixed[name][j]
                    rows.append(Row(True, {c.name: _pyval(d.get(c.name)) for c in t.columns}))
                else:
                    rows.append(Row(False, {c.name: NULL for c in t.columns}))
                    if tied is not None:
                        rows[-1].vals[t.pk[0]] = I(tied[j])
            ts = TableState(t, rows)
            ts.tied_pk = tied
            ctx.tables[name] = ts
            continue
        for j in range(cap):
            present = z3.Bool(f"{prefix}.{name}[{j}].present")
            vals = {}
            for c in t.columns:
                vn = f"{prefix}.{name}[{j}].{c.name}"
                if tied is not None and c.name == t.pk[0]:
                    vals[c.name] = I(tied[j])
                    continue
                n = False if c.notnull else z3.Bool(vn + ".null")
                if c.kind == "i":
                    vals[c.name] = V("i", n, z3.Int(vn))
                elif c.kind == "r":
                    vals[c.name] = V("r", n, z3.Real(vn))
                else:
                    a = z3.Int(vn)
                    cons.append(ctx.pool.valid(a))
                    vals[c.name] = V("t", n, a)
            rows.append(Row(present, vals))
        ts = TableState(t, rows)
        ts.tied_pk = tied
        ctx.tables[name] = ts
    cons += wellformed(ctx)
    return cons


def _pyval(x):
    from .values import from_python

    return from_python(x)


def wellformed(ctx: Ctx, tables=None):
    """Schema constraints as z3 formulas over the current state (CHECK, UNIQUE/PK, FK, BOOLEAN)."""
    ev = Engine(ctx)
    cons = []
    for name, ts in ctx.tables.items():
        if tables is not None and name not in tables:
            continue
        t = ts.table
        for j, r in enumerate(ts.rows):
            if r.present is False:
                continue
            rsc = Scope(None, Params(())).with_binding(t.name, r.vals)
            for chk in t.checks:
                cv = as_bool(ev.expr(chk, rsc))
                ok = bOr(cv.n, cv.v)
                if ok is not True:
                    cons.append(z3.Implies(bz(r.present), bz(ok)))
            for c in t.columns:
                if c.notnull and r.vals[c.name].n is not False:
                    cons.append(z3.Implies(bz(r.present), bz(bNot(r.vals[c.name].n))))
            for fk in t.fks:
                parent = ctx.tables.get(fk.ref_table)
                if parent is None:
                    continue
                refcols = fk.ref_cols or parent.table.pk
                anynull = bOr(*[r.vals[c].n for c in fk.cols])
                found = bOr(
                    *[
                        bAnd(p.present, *[v_eq_payload(ctx, p.vals[rc], r.vals[c]) for c, rc in zip(fk.cols, refcols)])
                        for p in parent.rows
                        if p.present is not False
                    ]
                )
                ok = bOr(anynull, found)
                if ok is not True:
                    cons.append(z3.Implies(bz(r.present), bz(ok)))
        keysets = [(t.pk, None)] if (t.pk and getattr(ts, "tied_pk", None) is None) else []
        keysets += t.uniques
        for ucols, where in keysets:
            for a in range(len(ts.rows)):
                for b in range(a):
                    ra, rb = ts.rows[a], ts.rows[b]
                    if ra.present is False or rb.present is False:
                        continue
                    same = bAnd(
                        ra.present,
                        rb.present,
                        *[bAnd(bNot(ra.vals[c].n), bNot(rb.vals[c].n), v_eq_payload(ctx, ra.vals[c], rb.vals[c])) for c in ucols],
                    )
                    if same is not False:
                        cons.append(bz(bNot(same)))
    return [c for c in cons if c is not True]


# ---------------------------------------------------------------------------------------------
# concretisation
# ---------------------------------------------------------------------------------------------


def model_value(ctx: Ctx, m, v: V):
    """python value of V under model m (None for NULL)."""
    n = v.n
    if is_sym(n):
        n = z3.is_true(m.eval(n, model_completion=True))
    if n:
        return None
    pv = v.v
    if is_sym(pv):
        pv = m.eval(pv, model_completion=True)
        if z3.is_int_value(pv):
            pv = pv.as_long()
        elif z3.is_rational_value(pv):
            pv = Fraction(pv.numerator_as_long(), pv.denominator_as_long())
        elif z3.is_true(pv) or z3.is_false(pv):
            pv = z3.is_true(pv)
        elif z3.is_algebraic_value(pv):
            pv = Fraction(pv.approx(20).numerator_as_long(), pv.approx(20).denominator_as_long())
        else:
            raise ValueError(f"cannot read model value {pv}")
    if v.k == "t":
        return pv if isinstance(pv, str) else ctx.pool.strings[pv]
    if v.k == "b":
        return int(bool(pv))
    if v.k == "r":
        return float(pv)
    return int(pv)


def model_bool(m, b):
    if isinstance(b, bool):
        return b
    return z3.is_true(m.eval(b, model_completion=True))


def concretise(ctx: Ctx, m, tables=None) -> dict:
    """{table: [row dict, ...]} of the present rows under model m."""
    out = {}
    for name, ts in (tables or ctx.tables).items():
        rows = []
        for r in ts.rows:
            if model_bool(m, r.present):
                rows.append({c: model_value(ctx, m, v) for c, v in r.vals.items()})
        out[name] = rows
    return out


def load_concrete(ctx: Ctx, content: dict, caps: dict):
    """Fill ctx.tables with concrete rows (python dicts)."""
    empty_tables(ctx, caps)
    for name, rows in content.items():
        if name not in ctx.tables:
            continue
        ts = ctx.tables[name]
        t = ts.table
        tied = ts.tied_pk
        free = 0
        for d in rows:
            if tied is not None:
                j = tied.index(d[t.pk[0]])
            else:
                j = free
                free += 1
            ts.rows[j] = Row(True, {c.name: _colval(c, d.get(c.name)) for c in t.columns})


def _colval(c, x):
    if x is None:
        return NULL
    if c.kind == "r":
        return R(Fraction(x).limit_denominator(10**9))
    if c.kind == "t":
        return T(str(x))
    return I(int(x))


def read_concrete(ctx: Ctx) -> dict:
    """Read a fully concrete state back as {table: sorted rows}."""
    out = {}
    for name, ts in ctx.tables.items():
        rows = []
        for r in ts.rows:
            if is_sym(r.present):
                p = z3.simplify(r.present)
                if not (z3.is_true(p) or z3.is_false(p)):
                    raise ValueError(f"{name}: symbolic presence in a concrete run: {p}")
                present = z3.is_true(p)
            else:
                present = r.present
            if not present:
                continue
            rows.append({c: _conc(ctx, v) for c, v in r.vals.items()})
        out[name] = sorted(rows, key=lambda d: [str(x) for x in d.values()])
    return out


def _conc(ctx, v: V):
    n = v.n
    if is_sym(n):
        n = z3.is_true(z3.simplify(n))
    if n:
        return None
    pv = v.v
    if is_sym(pv):
        pv = z3.simplify(pv)
        if z3.is_int_value(pv):
            pv = pv.as_long()
        elif z3.is_rational_value(pv):
            pv = Fraction(pv.numerator_as_long(), pv.denominator_as_long())
        elif z3.is_true(pv) or z3.is_false(pv):
            pv = z3.is_true(pv)
        else:
            raise ValueError(f"not concrete: {pv}")
    if v.k == "t":
        return pv if isinstance(pv, str) else ctx.pool.strings[pv]
    if v.k == "b":
        return int(bool(pv))
    if v.k == "r":
        return round(float(pv), 9)
    return int(pv)


# ---------------------------------------------------------------------------------------------
# real SQLite side
# ---------------------------------------------------------------------------------------------


def sqlite_from_content(schema_scripts, content: dict, extra_ddl=()):
    """Real in-memory SQLite (via stepup's connect) with the live schema and the given rows.
    Rows are loaded before triggers are created, with foreign keys off during the load."""
    from stepup.core.sqlite3 import connect

    con = connect(":memory:")
    con.execute("PRAGMA foreign_keys = OFF")
    import re

    tables, triggers = [], []
    for script in schema_scripts:
        buf = ""
        for line in script.splitlines(keepends=True):
            buf += line
            if sqlite3.complete_statement(buf):
                stripped = re.sub(r"(?m)^\s*--.*$", "", buf).strip()
                if stripped:
                    if re.match(r"(?is)CREATE\s+(TEMP\s+|TEMPORARY\s+)?TRIGGER", stripped):
                        triggers.append(buf)
                    else:
                        tables.append(buf)
                buf = ""
    for ddl in tables:
        con.execute(ddl)
    for ddl in extra_ddl:
        con.execute(ddl)
    for name, rows in content.items():
        for d in rows:
            cols = list(d.keys())
            con.execute(
                f"INSERT INTO {name} ({', '.join(cols)}) VALUES ({', '.join('?' for _ in cols)})",
                [d[c] for c in cols],
            )
    for trg in triggers:
        con.execute(trg)
    con.execute("PRAGMA foreign_keys = ON")
    return con


def sqlite_read(con, ctx: Ctx) -> dict:
    out = {}
    for name, ts in ctx.tables.items():
        cols = ts.table.colnames
        try:
            cur = con.execute(f"SELECT {', '.join(cols)} FROM {name}")
        except sqlite3.OperationalError:
            continue
        rows = []
        for row in cur:
            d = {}
            for c, x in zip(cols, row):
                col = ts.table.col(c)
                if x is not None and col.kind == "r":
                    x = round(float(x), 9)
                d[c] = x
            rows.append(d)
        out[name] = sorted(rows, key=lambda d: [str(x) for x in d.values()])
    return out
