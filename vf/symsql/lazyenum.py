"""Lazy enum members: the real code writes ``FileState(row[0])`` and then mostly asks
``state == FileState.BUILT`` or ``state in (A, B)``.  Concretising the integer at the constructor
forks once per feasible member; a lazy member forks two ways per comparison actually made.

`install()` replaces the *names* FileState / StepState / Need in the namespaces of the stepup
modules by a proxy that behaves like the enum class (attribute access, iteration, membership) and
returns a LazyMember when called with a LazyInt that has not been looked at yet.  The enum classes
themselves and every use of their members are the real ones."""

from __future__ import annotations

from .executor import LazyInt


class LazyMember:
    __slots__ = ("_enum", "_lazy", "_member")

    def __init__(self, enum, lazy):
        self._enum = enum
        self._lazy = lazy
        self._member = None

    def force(self):
        if self._member is None:
            self._member = self._enum(self._lazy.force())
        return self._member

    def __eq__(self, o):
        if self._member is not None:
            return self._member == (o.force() if isinstance(o, LazyMember) else o)
        if isinstance(o, LazyMember):
            o = o.force()
        if isinstance(o, self._enum):
            r = self._lazy == o.value
            if self._lazy._val is not None:
                self.force()
            return r
        if isinstance(o, int):
            return self._lazy == o
        return False

    def __ne__(self, o):
        return not self.__eq__(o)

    def __hash__(self):
        return hash(self.force())

    def __lt__(self, o):
        return self._lazy < (o.value if hasattr(o, "value") else o)

    def __le__(self, o):
        return self._lazy <= (o.value if hasattr(o, "value") else o)

    def __gt__(self, o):
        return self._lazy > (o.value if hasattr(o, "value") else o)

    def __ge__(self, o):
        return self._lazy >= (o.value if hasattr(o, "value") else o)

    def __int__(self):
        return int(self.force())

    def __index__(self):
        return int(self.force())

    @property
    def value(self):
        return self._lazy if self._member is None else self._member.value

    @property
    def name(self):
        return self.force().name

    def __repr__(self):
        return f"LazyMember({self._enum.__name__}, {self._member if self._member is not None else self._lazy!r})"

    def __str__(self):
        return str(self.force())

    def __format__(self, spec):
        return format(self.force(), spec)


class EnumProxy:
    def __init__(self, enum):
        object.__setattr__(self, "_enum", enum)

    def __call__(self, value):
        if isinstance(value, LazyInt) and value._val is None:
            return LazyMember(self._enum, value)
        if isinstance(value, LazyMember):
            return value
        return self._enum(int(value) if isinstance(value, LazyInt) else value)

    def __getattr__(self, name):
        return getattr(self._enum, name)

    def __iter__(self):
        return iter(self._enum)

    def __len__(self):
        return len(self._enum)

    def __contains__(self, x):
        return (x.force() if isinstance(x, LazyMember) else x) in self._enum

    def __getitem__(self, k):
        return self._enum[k]

    def __instancecheck__(self, obj):
        return isinstance(obj, self._enum) or (isinstance(obj, LazyMember) and obj._enum is self._enum)

    def __repr__(self):
        return f"EnumProxy({self._enum!r})"


MODULES = ("file", "step", "workflow", "startup", "finalize", "trellis", "scheduler", "static_tree")


def _force_text_args(fn):
    from .executor import LazyText

    def wrapper(*a, **k):
        a = tuple(x.force() if isinstance(x, LazyText) else x for x in a)
        return fn(*a, **k)

    wrapper._vf_wrapped = True
    return wrapper


def install():
    import importlib

    import stepup.core.hash as hm

    # C boundary: json.loads() needs a real str
    for cls in (hm.FileHash, hm.StepHash):
        f = cls.__dict__.get("from_json")
        inner = getattr(f, "__func__", f)
        if inner is not None and not getattr(inner, "_vf_wrapped", False):
            setattr(cls, "from_json", classmethod(_force_text_args(inner)))

    from stepup.core import enums

    for mn in MODULES:
        try:
            mod = importlib.import_module(f"stepup.core.{mn}")
        except ImportError:
            continue
        for en in ("FileState", "StepState", "Need"):
            cur = getattr(mod, en, None)
            if cur is getattr(enums, en):
                setattr(mod, en, EnumProxy(cur))
