"""DML, triggers, constraints and the top-level `Engine.execute`."""

from __future__ import annotations

import dataclasses

import lark


def D(k):
    return k.data if isinstance(k, lark.Tree) else None
import z3

from .engine import Bag, Ctx, Evaluator, Params, Row, Scope, TableState
from .parse import parse
from .schema import Column, Table
from .values import (
    NULL,
    I,
    Unsupported,
    V,
    bAnd,
    bIte,
    bNot,
    bOr,
    bz,
    is_sym,
    to_int,
    truth,
    v_cmp,
    v_eq_payload,
    v_ite,
)


@dataclasses.dataclass
class Result:
    bag: Bag | None = None
    rowcount: object = -1
    lastrowid: object = None
    kind: str = ""


def bind_params(tree, params: Params):
    """Replace positional '?' by bound values in textual order (SQLite's numbering)."""
    if not params.pos:
        return tree

    def rec(t):
        if isinstance(t, lark.Token):
            return t
        if D(t) == "p_pos":
            return lark.Tree("bound", [params.next()])
        return lark.Tree(D(t), [rec(k) for k in t.children], t.meta)

    out = rec(tree)
    if params.i != len(params.pos):
        raise Unsupported(f"statement uses {params.i} positional parameters, {len(params.pos)} given")
    return out


class Engine(Evaluator):
    def __init__(self, ctx: Ctx):
        super().__init__(ctx)
        self.free_capacity = 4

    # ------------------------------------------------------------------------------------------
    def execute(self, sql: str, args=()) -> Result:
        tree = parse(sql)
        stmts = [c for c in tree.children if isinstance(c, lark.Tree)]
        if len(stmts) != 1:
            raise Unsupported("execute() takes exactly one statement")
        params = Params(args)
        st = bind_params(stmts[0], params)
        sc = Scope(None, params)
        self.ctx.stats["statements"] += 1
        return self.statement(st, sc, True)

    def statement(self, st, sc: Scope, guard) -> Result:
        d = D(st)
        if d == "select_stmt":
            bag = self.select(st, sc.child() if sc.bindings or sc.parent else sc)
            return Result(bag=bag, kind="select")
        if d == "insert_stmt":
            return self.insert(st, sc, guard)
        if d == "update_stmt":
            return self.update(st, sc, guard)
        if d == "delete_stmt":
            return self.delete(st, sc, guard)
        if d == "create_table":
            return self.create_table(st, sc)
        if d == "drop_stmt":
            name = str([k for k in st.children if isinstance(k, lark.Token) and k.type == "NAME"][0])
            self.ctx.tables.pop(name, None)
            self.ctx.schema.tables.pop(name, None)
            return Result(kind="drop")
        if d in ("create_index", "create_trigger"):
            self.ctx.schema.add(st)
            return Result(kind="ddl")
        raise Unsupported(f"statement {d}")

    # ------------------------------------------------------------------------------------------
    def create_table(self, st, sc):
        kids = list(st.children)
        name = next(str(k) for k in kids if isinstance(k, lark.Token) and k.type == "NAME")
        body = next(k for k in kids if isinstance(k, lark.Tree) and D(k) in ("tbody_cols", "tbody_as"))
        exists = name in self.ctx.tables
        if exists:
            if any(isinstance(k, lark.Tree) and D(k) == "if_not_exists" for k in kids):
                return Result(kind="ddl")
            raise Unsupported(f"table {name} already exists")
        if D(body) == "tbody_as":
            bag = self.select(body.children[0], sc.child())
            cols = [Column(c, "") for c in bag.cols]
            t = Table(name, cols, [], [], [], [], temp=True)
            self.ctx.schema.tables[name] = t
            rows = [Row(g, dict(zip(bag.cols, vals))) for g, vals in bag.rows]
            # spare room for later inserts
            self.ctx.tables[name] = TableState(t, rows)
            return Result(kind="ddl")
        self.ctx.schema.add(st)
        t = self.ctx.schema.tables[name]
        cap = getattr(self.ctx, "temp_capacity", {}).get(name, self.free_capacity)
        self.ctx.tables[name] = TableState(t, [Row(False, {c.name: NULL for c in t.columns}) for _ in range(cap)])
        return Result(kind="ddl")

    # ------------------------------------------------------------------------------------------
    def _table(self, name) -> TableState:
        ts = self.ctx.tables.get(name)
        if ts is None:
            raise Unsupported(f"unknown table {name}")
        return ts

    def _names(self, tree):
        return [str(k) for k in tree.children if isinstance(k, lark.Token) and k.type == "NAME"]

    def insert(self, st, sc: Scope, guard) -> Result:
        kids = list(st.children)
        isc = sc.child()
        if kids and D(kids[0]) == "with_clause":
            self.with_clause(kids[0], isc)
            kids = kids[1:]
        verb = kids[0]
        mode = "abort"
        if D(verb) == "rep_verb":
            mode = "replace"
        elif verb.children:
            mode = str(verb.children[0].children[0]).lower()
        name = str(kids[1])
        rest = kids[2:]
        cols = None
        if rest and isinstance(rest[0], lark.Tree) and rest[0].data == "name_list":
            cols = [str(x) for x in rest[0].children]
            rest = rest[1:]
        src = rest[0]
        upsert = next((k for k in rest[1:] if D(k) == "upsert"), None)
        returning = next((k for k in rest[1:] if D(k) == "returning"), None)
        if name in self.ctx.ignore_tables:
            return Result(kind="insert", rowcount=0)
        ts = self._table(name)
        cols = cols or ts.table.colnames
        if D(src) == "src_values":
            srcrows = []
            for vr in src.children:
                srcrows.append((True, [self.expr(e, isc) for e in vr.children]))
        elif D(src) == "src_select":
            bag = self.select(src.children[0], isc.child())
            srcrows = bag.rows
        else:
            srcrows = [(True, [])]
            cols = []
        count = 0
        last = None
        ret_rows = []
        for g, vals in srcrows:
            if len(vals) != len(cols):
                raise Unsupported(f"INSERT into {name}: {len(vals)} values for {len(cols)} columns")
            eff, slot_sel = self.insert_row(ts, dict(zip(cols, vals)), bAnd(guard, g), mode, upsert, isc)
            count = count + bIte(eff, 1, 0) if eff is not False else count
            if eff is not False:
                for j, sel in slot_sel:
                    pkv = ts.rows[j].vals.get(ts.table.pk[0]) if len(ts.table.pk) == 1 else None
                    if pkv is not None and sel is not False:
                        last = pkv if last is None else v_ite(self.ctx, sel, pkv, last)
        if returning is not None:
            raise Unsupported("INSERT ... RETURNING")
        return Result(kind="insert", rowcount=count, lastrowid=last)

    def _default(self, col: Column, sc):
        if col.default is None:
            return NULL
        d = col.default
        if isinstance(d, lark.Tree) and d.data == "signed_number":
            neg = any(isinstance(k, lark.Token) and k.type == "MINUS" for k in d.children)
            num = self.x_l_num([d.children[-1]], sc)
            return V(num.k, False, -num.v) if neg else num
        return self.expr(d, sc)

    def insert_row(self, ts: TableState, given: dict, guard, mode, upsert, sc):
        """Insert one row; returns (effective guard, [(slot index, selector)])."""
        t = ts.table
        if guard is False:
            return False, []
        vals = {}
        for c in t.columns:
            vals[c.name] = given[c.name] if c.name in given else self._default(c, sc)
        for k in given:
            if k not in vals:
                raise Unsupported(f"unknown column {t.name}.{k}")
        tied = getattr(ts, "tied_pk", None)  # list of concrete pk values per slot, or None
        auto = t.rowid_alias and vals[t.pk[0]].n is True
        sels = []
        conflict = False
        conflict_rows = []  # (slot, cond) rows that conflict (for replace/upsert)
        if tied is not None and not auto:
            pkv = vals[t.pk[0]]
            if pkv.n is not False:
                raise Unsupported("NULL primary key on a tied table")
            for j, r in enumerate(ts.rows):
                s = (pkv.v == tied[j]) if not is_sym(pkv.v) else (pkv.v == tied[j])
                if s is False:
                    continue
                sels.append((j, s))
                c = bAnd(s, r.present)
                if c is not False:
                    conflict_rows.append((j, c))
        elif auto:
            if tied is None:
                raise Unsupported(f"auto rowid on free table {t.name}")
            n = len(ts.rows)
            for j in range(n):
                later_absent = bAnd(*[bNot(ts.rows[k].present) for k in range(j, n)])
                prev = ts.rows[j - 1].present if j > 0 else True
                s = bAnd(later_absent, prev)
                if s is not False:
                    sels.append((j, s))
            vals = dict(vals)
        else:
            # free table: first absent slot; pk conflict with any present row having the same key
            n = len(ts.rows)
            for j in range(n):
                s = bAnd(bNot(ts.rows[j].present), *[ts.rows[k].present for k in range(j)])
                if s is not False:
                    sels.append((j, s))
            if t.pk:
                for j, r in enumerate(ts.rows):
                    if r.present is False:
                        continue
                    same = bAnd(r.present, *[v_eq_payload(self.ctx, r.vals[c], vals[c]) for c in t.pk])
                    if same is not False:
                        conflict_rows.append((j, same))
        # other UNIQUE constraints
        for ucols, where in t.uniques:
            if where is not None:
                raise Unsupported("partial UNIQUE index")
            for j, r in enumerate(ts.rows):
                if r.present is False:
                    continue
                if any(vals[c].n is True for c in ucols):
                    continue
                same = bAnd(
                    r.present,
                    *[bAnd(bNot(vals[c].n), bNot(r.vals[c].n), v_eq_payload(self.ctx, r.vals[c], vals[c])) for c in ucols],
                )
                if same is not False and not any(j == cj for cj, _ in conflict_rows):
                    conflict_rows.append((j, same))
                elif same is not False:
                    conflict_rows = [(cj, bOr(cc, same) if cj == j else cc) for cj, cc in conflict_rows]
        conflict = bOr(*[c for _, c in conflict_rows])
        eff = guard
        if conflict is not False:
            if upsert is not None:
                action = upsert.children[-1]
                if D(action) == "up_nothing":
                    eff = bAnd(guard, bNot(conflict))
                else:
                    self._upsert_update(ts, action, conflict_rows, vals, guard, sc)
                    eff = bAnd(guard, bNot(conflict))
            elif mode == "ignore":
                eff = bAnd(guard, bNot(conflict))
            elif mode == "replace":
                for j, c in conflict_rows:
                    dg = bAnd(guard, c)
                    ts.rows[j] = Row(bAnd(ts.rows[j].present, bNot(dg)), ts.rows[j].vals)
                # recompute selectors for free tables is not needed: the conflicting slot is reused
                if tied is None:
                    # put the new row into the (first) conflicting slot when there is one
                    newsels = []
                    taken = False
                    for j, c in conflict_rows:
                        newsels.append((j, bAnd(c, bNot(taken))))
                        taken = bOr(taken, c)
                    sels = newsels + [(j, bAnd(s, bNot(conflict))) for j, s in sels]
            else:
                self.ctx.abort(bAnd(guard, conflict), "IntegrityError", f"UNIQUE constraint failed: {t.name}")
                eff = bAnd(guard, bNot(conflict))
        if eff is False:
            return False, []
        overflow = bAnd(eff, bNot(bOr(*[s for _, s in sels])))
        if overflow is not False:
            self.ctx.assumptions.append(bz(bNot(overflow)))
            self.ctx.notes.append(f"capacity cut: INSERT into {t.name} assumed to find a free slot")
        written = []
        for j, s in sels:
            w = bAnd(eff, s)
            if w is False:
                continue
            old = ts.rows[j]
            newvals = {}
            for c in t.columns:
                nv = vals[c.name]
                if auto and c.name == t.pk[0]:
                    nv = I(tied[j])
                newvals[c.name] = v_ite(self.ctx, w, nv, old.vals[c.name])
            ts.rows[j] = Row(bOr(old.present, w), newvals)
            rowvals = {c.name: (I(tied[j]) if auto and c.name == t.pk[0] else vals[c.name]) for c in t.columns}
            written.append((j, w, rowvals))
        for j, w, rowvals in written:
            self._row_constraints(ts, rowvals, w, set(t.colnames), sc)
        self.fire(t.name, "insert", set(), [(w, None, rowvals) for j, w, rowvals in written], sc)
        return eff, [(j, w) for j, w, _ in written]

    def _upsert_update(self, ts, action, conflict_rows, newvals, guard, sc):
        """ON CONFLICT DO UPDATE SET ... [WHERE ...]: an UPDATE of the conflicting row, with its
        row constraints and its UPDATE triggers."""
        assigns = [k for k in action.children if isinstance(k, lark.Tree) and D(k) == "assignment"]
        wc = next((k for k in action.children if isinstance(k, lark.Tree) and D(k) == "where_clause"), None)
        assigned = {str(a.children[0]) for a in assigns}
        affected = []
        for j, c in conflict_rows:
            g = bAnd(guard, c)
            if g is False:
                continue
            old = ts.rows[j]
            rsc = sc.with_binding(ts.table.name, old.vals).with_binding("excluded", newvals)
            if wc is not None:
                g = bAnd(g, truth(self.expr(wc.children[0], rsc)))
                if g is False:
                    continue
            upd = dict(old.vals)
            for a in assigns:
                col = str(a.children[0])
                nv = _coerce_col(ts.table.col(col), self.expr(a.children[1], rsc))
                upd[col] = v_ite(self.ctx, g, nv, old.vals[col])
            ts.rows[j] = Row(old.present, upd)
            affected.append((j, g, old.vals, upd))
        for j, g, oldv, newv in affected:
            self._row_constraints(ts, newv, g, assigned, sc)
        self.fire(ts.table.name, "update", assigned, [(g, oldv, newv) for j, g, oldv, newv in affected], sc)

    # ------------------------------------------------------------------------------------------
    def _row_constraints(self, ts: TableState, rowvals: dict, guard, touched: set, sc):
        t = ts.table
        for c in t.columns:
            if c.notnull and c.name in touched and rowvals[c.name].n is not False:
                self.ctx.abort(bAnd(guard, rowvals[c.name].n), "IntegrityError", f"NOT NULL constraint failed: {t.name}.{c.name}")
        rsc = Scope(None, sc.params).with_binding(t.name, rowvals)
        for chk in t.checks:
            cv = self.expr(chk, rsc)
            from .values import as_bool

            cb = as_bool(cv)
            bad = bAnd(bNot(cb.n), bNot(cb.v))
            if bad is not False:
                self.ctx.abort(bAnd(guard, bad), "IntegrityError", f"CHECK constraint failed: {t.name}")
        for fk in t.fks:
            if not (set(fk.cols) & touched):
                continue
            parent = self.ctx.tables.get(fk.ref_table)
            if parent is None:
                continue
            refcols = fk.ref_cols or parent.table.pk
            anynull = bOr(*[rowvals[c].n for c in fk.cols])
            found = bOr(
                *[
                    bAnd(p.present, *[v_eq_payload(self.ctx, p.vals[rc], rowvals[c]) for c, rc in zip(fk.cols, refcols)])
                    for p in parent.rows
                    if p.present is not False
                ]
            )
            bad = bAnd(bNot(anynull), bNot(found))
            if bad is not False:
                self.ctx.abort(bAnd(guard, bad), "IntegrityError", "FOREIGN KEY constraint failed")

    # ------------------------------------------------------------------------------------------
    def update(self, st, sc: Scope, guard) -> Result:
        kids = list(st.children)
        usc = sc.child()
        if kids and D(kids[0]) == "with_clause":
            self.with_clause(kids[0], usc)
            kids = kids[1:]
        mode = "abort"
        if kids and isinstance(kids[0], lark.Tree) and D(kids[0]) == "conflict_alg":
            mode = str(kids[0].children[0]).lower()
            kids = kids[1:]
        name = str(kids[0])
        alias = name
        idx = 1
        if idx < len(kids) and isinstance(kids[idx], lark.Token) and kids[idx].type == "NAME":
            alias = str(kids[idx])
            idx += 1
        assigns = [k for k in kids[idx:] if isinstance(k, lark.Tree) and D(k) == "assignment"]
        fc = next((k for k in kids[idx:] if isinstance(k, lark.Tree) and D(k) == "from_clause"), None)
        wc = next((k for k in kids[idx:] if isinstance(k, lark.Tree) and D(k) == "where_clause"), None)
        returning = next((k for k in kids[idx:] if isinstance(k, lark.Tree) and D(k) == "returning"), None)
        if name in self.ctx.ignore_tables:
            return Result(kind="update", rowcount=0)
        ts = self._table(name)
        t = ts.table
        assigned = [str(a.children[0]) for a in assigns]
        for col in assigned:
            if col in t.pk:
                raise Unsupported(f"UPDATE of primary key column {name}.{col}")
        frows = self.from_rows(fc, usc) if fc is not None else [(True, usc)]
        plans = []  # per slot: (cond, newvals dict)
        for j, r in enumerate(ts.rows):
            if r.present is False:
                plans.append((False, None))
                continue
            cond_total = False
            newvals = {c: r.vals[c] for c in assigned}
            for fg, fsc in reversed(frows):
                rsc = fsc.with_binding(alias, r.vals)
                cond = bAnd(guard, r.present, fg)
                if cond is False:
                    continue
                if wc is not None:
                    cond = bAnd(cond, truth(self.expr(wc.children[0], rsc)))
                if cond is False:
                    continue
                for a in assigns:
                    col = str(a.children[0])
                    nv = self.expr(a.children[1], rsc)
                    nv = _coerce_col(t.col(col), nv)
                    newvals[col] = v_ite(self.ctx, cond, nv, newvals[col])
                cond_total = bOr(cond_total, cond)
            plans.append((cond_total, newvals))
        affected = []
        for j, (cond, newvals) in enumerate(plans):
            if cond is False:
                continue
            old = ts.rows[j]
            merged = dict(old.vals)
            merged.update(newvals)
            ts.rows[j] = Row(old.present, merged)
            affected.append((j, cond, old.vals, merged))
        for j, cond, oldv, newv in affected:
            self._row_constraints(ts, newv, cond, set(assigned), usc)
            for ucols, where in t.uniques:
                if not (set(ucols) & set(assigned)):
                    continue
                for k, r in enumerate(ts.rows):
                    if k == j or r.present is False:
                        continue
                    same = bAnd(r.present, *[bAnd(bNot(newv[c].n), v_eq_payload(self.ctx, r.vals[c], newv[c])) for c in ucols])
                    if same is not False:
                        self.ctx.abort(bAnd(cond, same), "IntegrityError", f"UNIQUE constraint failed: {t.name}")
        rowcount = 0
        for j, cond, _, _ in affected:
            rowcount = rowcount + bIte(cond, 1, 0)
        ret = None
        if returning is not None:
            rcols = [k for k in returning.children if isinstance(k, lark.Tree)]
            rows = []
            names = None
            for j, cond, oldv, newv in affected:
                rsc = usc.with_binding(alias, newv)
                if names is None:
                    names = self._result_names(rcols, [(cond, rsc)], usc)
                rows.append((cond, self._result_vals(rcols, rsc)))
            ret = Bag(names or ["col0"], rows)
        self.fire(name, "update", set(assigned), [(cond, oldv, newv) for j, cond, oldv, newv in affected], usc)
        return Result(kind="update", rowcount=rowcount, bag=ret)

    # ------------------------------------------------------------------------------------------
    def delete(self, st, sc: Scope, guard) -> Result:
        kids = list(st.children)
        dsc = sc.child()
        if kids and isinstance(kids[0], lark.Tree) and D(kids[0]) == "with_clause":
            self.with_clause(kids[0], dsc)
            kids = kids[1:]
        name = str(kids[0])
        wc = next((k for k in kids[1:] if isinstance(k, lark.Tree) and D(k) == "where_clause"), None)
        if name in self.ctx.ignore_tables:
            return Result(kind="delete", rowcount=0)
        ts = self._table(name)
        conds = []
        for j, r in enumerate(ts.rows):
            if r.present is False:
                conds.append(False)
                continue
            c = bAnd(guard, r.present)
            if wc is not None:
                c = bAnd(c, truth(self.expr(wc.children[0], dsc.with_binding(name, r.vals))))
            conds.append(c)
        rowcount = 0
        for c in conds:
            if c is not False:
                rowcount = rowcount + bIte(c, 1, 0)
        self.delete_rows(ts, conds, dsc)
        return Result(kind="delete", rowcount=rowcount)

    def delete_rows(self, ts: TableState, conds, sc, _pending_checks=None):
        top = _pending_checks is None
        checks = [] if top else _pending_checks
        deleted = []
        for j, c in enumerate(conds):
            if c is False:
                continue
            old = ts.rows[j]
            ts.rows[j] = Row(bAnd(old.present, bNot(c)), old.vals)
            deleted.append((c, old.vals))
        if not deleted:
            return
        t = ts.table
        # foreign keys referencing this table
        for cname, cts in list(self.ctx.tables.items()):
            for fk in cts.table.fks:
                if fk.ref_table != t.name:
                    continue
                refcols = fk.ref_cols or t.pk
                cconds = []
                for k, cr in enumerate(cts.rows):
                    if cr.present is False:
                        cconds.append(False)
                        continue
                    hit = bOr(
                        *[
                            bAnd(c, *[bAnd(bNot(cr.vals[fc].n), v_eq_payload(self.ctx, cr.vals[fc], ov[rc])) for fc, rc in zip(fk.cols, refcols)])
                            for c, ov in deleted
                        ]
                    )
                    cconds.append(bAnd(cr.present, hit) if hit is not False else False)
                if all(c is False for c in cconds):
                    continue
                if fk.on_delete == "CASCADE":
                    if cname in self.ctx.ignore_tables:
                        continue
                    self.delete_rows(cts, cconds, sc, checks)
                else:
                    checks.append((cts, fk, cconds))
        self.fire(t.name, "delete", set(), [(c, ov, None) for c, ov in deleted], sc)
        if top:
            # NO ACTION foreign keys are checked at the end of the statement
            for cts, fk, cconds in checks:
                for k, c in enumerate(cconds):
                    if c is False:
                        continue
                    still = bAnd(cts.rows[k].present, c)
                    if still is not False:
                        self.ctx.abort(still, "IntegrityError", "FOREIGN KEY constraint failed")

    # ------------------------------------------------------------------------------------------
    def fire(self, table, event, assigned: set, affected, sc):
        if not affected:
            return
        for trg in self.ctx.schema.triggers:
            if trg.table != table or trg.event != event:
                continue
            if event == "update" and trg.of_cols and not (set(trg.of_cols) & assigned):
                continue
            if trg.name in self.ctx.active_triggers:
                continue
            body = [b for b in trg.body if not self._targets_ignored(b)]
            if not body:
                continue
            if trg.time != "AFTER":
                raise Unsupported(f"{trg.time} trigger {trg.name}")
            self.ctx.active_triggers.append(trg.name)
            try:
                for cond, oldv, newv in affected:
                    tsc = Scope(None, Params(()))
                    if oldv is not None:
                        tsc = tsc.with_binding("OLD", oldv)
                    if newv is not None:
                        tsc = tsc.with_binding("NEW", newv)
                    g = cond
                    if trg.when is not None:
                        g = bAnd(g, truth(self.expr(trg.when, tsc)))
                    if g is False:
                        continue
                    self.ctx.stats["trigger_firings"] += 1
                    for b in body:
                        self.trigger_stmt(b, tsc, g)
            finally:
                self.ctx.active_triggers.pop()

    def _targets_ignored(self, st):
        if D(st) in ("insert_stmt", "update_stmt", "delete_stmt"):
            names = [str(k) for k in st.children if isinstance(k, lark.Token) and k.type == "NAME"]
            return bool(names) and names[0] in self.ctx.ignore_tables
        return False

    def trigger_stmt(self, st, tsc: Scope, g):
        if D(st) == "select_stmt":
            # SELECT RAISE(ABORT, msg) FROM ... WHERE ...
            msg = _find_raise(st)
            if msg is None:
                return
            compound = next(k for k in st.children if D(k) == "compound")
            core = compound.children[0]
            fc = next((k for k in core.children if isinstance(k, lark.Tree) and D(k) == "from_clause"), None)
            wc = next((k for k in core.children if isinstance(k, lark.Tree) and D(k) == "where_clause"), None)
            rows = self.from_rows(fc, tsc.child())
            hit = False
            for rg, rsc in rows:
                c = rg
                if wc is not None:
                    c = bAnd(c, truth(self.expr(wc.children[0], rsc)))
                hit = bOr(hit, c)
            self.ctx.abort(bAnd(g, hit), "IntegrityError", msg)
            return
        self.statement(st, tsc, g)


def _find_raise(tree):
    if not isinstance(tree, lark.Tree):
        return None
    if D(tree) == "e_raise":
        return str(tree.children[1])[1:-1] if len(tree.children) > 1 else "raise"
    for k in tree.children:
        r = _find_raise(k)
        if r is not None:
            return r
    return None


def _coerce_col(col: Column, v: V) -> V:
    """Column affinity: booleans stored as integers; ints stored into REAL columns become reals."""
    if v.k == "b":
        v = to_int(v)
    if col.kind == "r" and v.k == "i":
        from fractions import Fraction

        pv = v.v
        return V("r", v.n, z3.ToReal(pv) if is_sym(pv) else Fraction(pv))
    return v
