"""Symbolic evaluation of SQL statements over a bounded relational state.

State: every table has a fixed list of row *slots*; a slot is ``Row(present, vals)`` where
``present`` is a python bool or z3 Bool and ``vals`` maps column name -> V.  SELECT evaluates to a
*bag*: a list of ``(guard, [V...])``.  DML rewrites the state functionally (``If(guard, new, old)``),
applies row triggers, and collects *abort conditions* (constraint violations, RAISE(ABORT)).

Everything folds constants eagerly, so that a concrete state is evaluated concretely (this is
what the differential self-test against real SQLite relies on).
"""

from __future__ import annotations

import dataclasses
from fractions import Fraction

import lark


def D(k):
    return k.data if isinstance(k, lark.Tree) else None
import z3

from .parse import parse
from .schema import Schema, Table, Trigger
from .values import (
    NULL,
    B,
    I,
    Pool,
    R,
    T,
    Unsupported,
    V,
    as_bool,
    bAnd,
    bIte,
    bNot,
    bOr,
    bz,
    from_python,
    is_sym,
    to_int,
    truth,
    v_and,
    v_arith,
    v_cmp,
    v_eq_payload,
    v_is,
    v_ite,
    v_not,
    v_or,
)

AGGREGATES = {"count", "sum", "min", "max", "total", "avg", "group_concat"}


@dataclasses.dataclass
class Row:
    present: object
    vals: dict

    def copy(self):
        return Row(self.present, dict(self.vals))


class TableState:
    def __init__(self, table: Table, rows):
        self.table = table
        self.rows = rows

    def copy(self):
        ts = TableState(self.table, [r.copy() for r in self.rows])
        if hasattr(self, "tied_pk"):
            ts.tied_pk = self.tied_pk
        return ts


class Abort(Exception):
    """A definite (concrete) abort of the current statement."""

    def __init__(self, kind, msg):
        super().__init__(msg)
        self.kind = kind
        self.msg = msg


class Ctx:
    """Evaluation context: schema, pool, state, side conditions."""

    def __init__(self, schema: Schema, pool: Pool, ignore_tables=()):
        self.schema = schema
        self.pool = pool
        self.tables: dict[str, TableState] = {}
        self.assumptions: list = []  # constraints introduced by the encoding (choices, cuts)
        self.aborts: list = []  # (cond, kind, msg) collected during the current statement
        self.notes: list = []
        self.ignore_tables = set(ignore_tables)
        self._fresh = 0
        self.cte_depth = 4
        self.unwinding: list = []  # (description, condition that must be unsat)
        self.active_triggers: list = []
        self.stats = {"statements": 0, "trigger_firings": 0, "rows_built": 0}

    def fresh(self, prefix, sort="bool"):
        self._fresh += 1
        name = f"{prefix}!{self._fresh}"
        if sort == "bool":
            return z3.Bool(name)
        if sort == "int":
            return z3.Int(name)
        return z3.Real(name)

    def copy_state(self):
        return {n: t.copy() for n, t in self.tables.items()}

    def abort(self, cond, kind, msg):
        if cond is False:
            return
        self.aborts.append((cond, kind, msg))


# ---------------------------------------------------------------------------------------------
# Scopes
# ---------------------------------------------------------------------------------------------


class Scope:
    def __init__(self, parent=None, params=None, ctes=None):
        self.parent = parent
        self.bindings: list = []  # (alias, {col: V})
        self.params = params if params is not None else (parent.params if parent else None)
        self.ctes = dict(ctes or {})
        self.agg = None  # (rows) when evaluating an aggregate query

    def child(self):
        return Scope(self)

    def with_binding(self, alias, cols):
        s = Scope(self.parent, self.params, self.ctes)
        s.bindings = self.bindings + [(alias, cols)]
        s.agg = self.agg
        return s

    def lookup_cte(self, name):
        s = self
        while s is not None:
            if name in s.ctes:
                return s.ctes[name]
            s = s.parent
        return None

    def resolve(self, qual, name):
        s = self
        lname = name
        while s is not None:
            hits = []
            for alias, cols in reversed(s.bindings):
                if qual is not None and alias.lower() != qual.lower():
                    continue
                if lname in cols:
                    hits.append(cols[lname])
                else:
                    for cn in cols:
                        if cn.lower() == lname.lower():
                            hits.append(cols[cn])
                            break
            if hits:
                if len(hits) > 1 and qual is None:
                    # SQLite reports ambiguity; the live statements never rely on it except for
                    # identical join keys.  Take the first binding (leftmost table).
                    return hits[-1]
                return hits[0]
            s = s.parent
        if qual is None and name.lower() in ("rowid",):
            raise Unsupported("rowid reference")
        raise Unsupported(f"unknown column {qual + '.' if qual else ''}{name}")


class Params:
    def __init__(self, args):
        if isinstance(args, dict):
            self.named = {k: from_python(v) for k, v in args.items()}
            self.pos = []
        else:
            self.named = {}
            self.pos = [from_python(a) for a in (args or ())]
        self.i = 0

    def next(self):
        if self.i >= len(self.pos):
            raise Unsupported("not enough positional parameters")
        v = self.pos[self.i]
        self.i += 1
        return v


@dataclasses.dataclass
class Bag:
    cols: list
    rows: list  # (guard, [V])

    def dicts(self):
        return [(g, dict(zip(self.cols, vals))) for g, vals in self.rows]


# ---------------------------------------------------------------------------------------------
# Expression evaluation
# ---------------------------------------------------------------------------------------------


class Evaluator:
    def __init__(self, ctx: Ctx):
        self.ctx = ctx

    # -- expressions ----------------------------------------------------------------------------
    def expr(self, e, sc: Scope) -> V:
        if isinstance(e, lark.Token):
            raise Unsupported(f"token {e!r} as expression")
        d = D(e)
        c = e.children
        m = getattr(self, "x_" + d, None)
        if m is None:
            raise Unsupported(f"expression node {d}")
        return m(c, sc)

    def x_l_num(self, c, sc):
        s = str(c[0])
        if any(ch in s for ch in ".eE"):
            return R(Fraction(s))
        return I(int(s))

    def x_l_str(self, c, sc):
        s = str(c[0])[1:-1].replace("''", "'")
        return T(s)

    def x_l_null(self, c, sc):
        return NULL

    def x_l_true(self, c, sc):
        return I(1)

    def x_l_false(self, c, sc):
        return I(0)

    def x_literal(self, c, sc):
        return self.expr(c[0], sc)

    def x_p_pos(self, c, sc):
        return sc.params.next()

    def x_p_named(self, c, sc):
        name = str(c[0])[1:]
        if name not in sc.params.named:
            raise Unsupported(f"missing named parameter {name}")
        return sc.params.named[name]

    def x_e_col(self, c, sc):
        return sc.resolve(None, str(c[0]))

    def x_e_qcol(self, c, sc):
        return sc.resolve(str(c[0]), str(c[1]))

    def x_e_not(self, c, sc):
        return v_not(self.expr(c[0], sc))

    def x_or_expr(self, c, sc):
        acc = self.expr(c[0], sc)
        for x in c[1:]:
            acc = v_or(acc, self.expr(x, sc))
        return acc

    def x_and_expr(self, c, sc):
        acc = self.expr(c[0], sc)
        for x in c[1:]:
            if acc.n is False and acc.v is False:
                # short-circuit is semantically fine (no side effects) but parameters must
                # still be consumed in order
                self.expr(x, sc)
                continue
            acc = v_and(acc, self.expr(x, sc))
        return acc

    def x_e_bin(self, c, sc):
        a = self.expr(c[0], sc)
        op = str(c[1])
        b = self.expr(c[2], sc)
        if op in ("=", "=="):
            return v_cmp(self.ctx, "=", a, b)
        if op in ("<>", "!="):
            return v_cmp(self.ctx, "!=", a, b)
        if op in ("<", "<=", ">", ">="):
            return v_cmp(self.ctx, op, a, b)
        if op in ("+", "-", "*", "/"):
            return v_arith(op, a, b)
        if op == "||":
            return self.text_fn(lambda x, y: x + y, [a, b], "t")
        raise Unsupported(f"operator {op}")

    def x_e_neg(self, c, sc):
        return v_arith("-", I(0), self.expr(c[0], sc))

    def x_e_is(self, c, sc):
        return v_is(self.ctx, self.expr(c[0], sc), self.expr(c[1], sc))

    def x_e_isnot(self, c, sc):
        return v_not(v_is(self.ctx, self.expr(c[0], sc), self.expr(c[1], sc)))

    def x_e_isnull(self, c, sc):
        a = self.expr(c[0], sc)
        return V("b", False, a.n)

    def x_e_notnull(self, c, sc):
        a = self.expr(c[0], sc)
        return V("b", False, bNot(a.n))

    def x_e_between(self, c, sc):
        a = self.expr(c[0], sc)
        lo = self.expr(c[1], sc)
        hi = self.expr(c[2], sc)
        return v_and(v_cmp(self.ctx, ">=", a, lo), v_cmp(self.ctx, "<=", a, hi))

    def x_e_in(self, c, sc):
        return self._in(c, sc)

    def x_e_notin(self, c, sc):
        return v_not(self._in(c, sc))

    def _in(self, c, sc):
        x = self.expr(c[0], sc)
        rhs = c[1]
        if D(rhs) == "in_empty":
            return B(False)
        if D(rhs) == "in_list":
            items = [(True, self.expr(i, sc)) for i in rhs.children]
        elif D(rhs) == "in_select":
            bag = self.collapse_identical(self.select(rhs.children[0], sc.child()))
            items = [(g, vals[0]) for g, vals in bag.rows]
        elif D(rhs) == "in_table":
            bag = self.table_bag(str(rhs.children[0]), sc)
            items = [(g, vals[0]) for g, vals in bag.rows]
        else:
            raise Unsupported(D(rhs))
        match = bOr(*[bAnd(g, bNot(v.n), v_cmp(self.ctx, "=", V(x.k, False, x.v), V(v.k, False, v.v)).v) for g, v in items if v.n is not True])
        hasnull = bOr(*[bAnd(g, v.n) for g, v in items])
        nonempty = bOr(*[g for g, _ in items])
        n = bOr(bAnd(x.n, nonempty), bAnd(bNot(x.n), bNot(match), hasnull))
        return V("b", n, bAnd(bNot(x.n), match))

    def x_e_like(self, c, sc):
        return self._like(c, sc)

    def x_e_notlike(self, c, sc):
        return v_not(self._like(c, sc))

    def _like(self, c, sc):
        text = self.expr(c[0], sc)
        pat = self.expr(c[1], sc)
        esc = None
        if len(c) > 2:
            ev = self.expr(c[2].children[0], sc)
            if not isinstance(ev.v, str) or len(ev.v) != 1:
                raise Unsupported("ESCAPE must be a one-character constant")
            esc = ev.v
        cs = getattr(self.ctx, "like_case_sensitive", True)
        from vf.z3str import SStr, like as like_model

        def f(t, p):
            r = like_model(SStr.const(p), SStr.const(t), ord(esc) if esc else None, cs)
            return bool(r) if isinstance(r, bool) else z3.is_true(z3.simplify(r))

        return self.text_fn(f, [text, pat], "b")

    def x_e_exists(self, c, sc):
        bag = self.select(c[0], sc.child())
        return B(bOr(*[g for g, _ in bag.rows]))

    def x_e_subquery(self, c, sc):
        bag = self.select(c[0], sc.child())
        res = NULL
        for g, vals in reversed(bag.rows):
            res = v_ite(self.ctx, g, vals[0], res)
        return res

    def x_case_expr(self, c, sc):
        base = None
        whens = []
        else_tree = None
        for k in c:
            if D(k) == "case_when":
                whens.append(k)
            elif D(k) == "case_else":
                else_tree = k.children[0]
            else:
                base = k
        basev = self.expr(base, sc) if base is not None else None
        conds = []
        for w in whens:
            cv = self.expr(w.children[0], sc)
            if basev is not None:
                cv = v_cmp(self.ctx, "=", basev, cv)
            tv = self.expr(w.children[1], sc)
            conds.append((truth(cv), tv))
        res = NULL if else_tree is None else self.expr(else_tree, sc)
        for cnd, tv in reversed(conds):
            res = v_ite(self.ctx, cnd, tv, res)
        return res

    def x_e_cast(self, c, sc):
        return self.expr(c[0], sc)

    def x_e_raise(self, c, sc):
        msg = str(c[1])[1:-1] if len(c) > 1 else ""
        return V("i", True, ("raise", str(c[0]).upper(), msg))

    def x_e_func_star(self, c, sc):
        name = str(c[0]).lower()
        if name != "count":
            raise Unsupported(f"{name}(*)")
        rows = self._agg_rows(sc)
        return I(_sum_int([bIte(g, 1, 0) for g, _ in rows]))

    def _agg_rows(self, sc):
        s = sc
        while s is not None:
            if s.agg is not None:
                return s.agg
            s = s.parent
        raise Unsupported("aggregate outside an aggregate query")

    def x_e_func(self, c, sc):
        name = str(c[0]).lower()
        args = [k for k in c[1:] if isinstance(k, lark.Tree)]
        distinct = any(isinstance(k, lark.Token) and k.type == "DISTINCT" for k in c[1:])
        if name in AGGREGATES and len(args) == 1 and self._in_agg(sc):
            return self.aggregate(name, args[0], sc, distinct)
        vals = [self.expr(a, sc) for a in args]
        if name in ("max", "min") and len(vals) >= 2:
            n = bOr(*[v.n for v in vals])
            acc = vals[0]
            for v in vals[1:]:
                better = v_cmp(self.ctx, ">" if name == "max" else "<", v, acc).v
                acc = v_ite(self.ctx, better, V(v.k, False, v.v), V(acc.k, False, acc.v))
            return V(acc.k, n, acc.v)
        if name == "coalesce":
            res = vals[-1]
            for v in reversed(vals[:-1]):
                res = v_ite(self.ctx, bNot(v.n), v, res)
            return res
        if name == "ifnull" and len(vals) == 2:
            return v_ite(self.ctx, bNot(vals[0].n), vals[0], vals[1])
        if name == "abs":
            v = to_int(vals[0])
            neg = v_cmp(self.ctx, "<", v, I(0)).v
            return v_ite(self.ctx, neg, v_arith("-", I(0), v), v)
        if name == "json_valid":
            return V("b", vals[0].n, True)
        if name == "length":
            return self.text_fn(lambda s: len(s), vals, "i")
        if name == "substr":
            if len(vals) == 3:
                return self.text_fn(lambda s, a, b: _substr(s, a, b), vals, "t")
            return self.text_fn(lambda s, a: _substr(s, a, None), vals, "t")
        if name in ("lower", "upper"):
            return self.text_fn(lambda s: getattr(s, name)(), vals, "t")
        raise Unsupported(f"function {name}/{len(vals)}")

    def _in_agg(self, sc):
        s = sc
        while s is not None:
            if s.agg is not None:
                return True
            s = s.parent
        return False

    def aggregate(self, name, arg, sc, distinct=False):
        rows = self._agg_rows(sc)
        items = []
        for g, rsc in rows:
            v = self.expr(arg, rsc)
            items.append((bAnd(g, bNot(v.n)), v))
        if name == "count":
            if distinct:
                raise Unsupported("COUNT(DISTINCT)")
            return I(_sum_int([bIte(g, 1, 0) for g, _ in items]))
        if name in ("sum", "total"):
            anyrow = bOr(*[g for g, _ in items])
            kinds = {to_int(v).k for _, v in items} or {"i"}
            k = "r" if "r" in kinds else "i"
            total = 0 if k == "i" else Fraction(0)
            for g, v in items:
                v = to_int(v)
                pv = v.v
                if k == "r" and v.k == "i":
                    pv = z3.ToReal(pv) if is_sym(pv) else Fraction(pv)
                total = total + bIte(g, pv, 0 if k == "i" else Fraction(0)) if not (g is False) else total
            if name == "total":
                return V("r", False, total)
            return V(k, bNot(anyrow), total)
        if name in ("min", "max"):
            acc = NULL
            for g, v in items:
                v = to_int(v)
                vv = V(v.k, False, v.v)
                if acc.n is True:
                    cand = vv
                else:
                    better = v_cmp(self.ctx, "<" if name == "min" else ">", vv, V(acc.k, False, acc.v)).v
                    cand = v_ite(self.ctx, bOr(acc.n, better), vv, acc)
                acc = v_ite(self.ctx, g, cand, acc)
            return acc
        raise Unsupported(f"aggregate {name}")

    # -- text functions via the pool --------------------------------------------------------------
    def text_fn(self, f, vals, out_kind):
        """Apply a concrete python function to text/int args; atoms are enumerated over the pool."""
        n = bOr(*[v.n for v in vals])
        pool = self.ctx.pool

        def rec(i, acc):
            if i == len(vals):
                r = f(*acc)
                if out_kind == "t":
                    return T(r)
                if out_kind == "b":
                    return B(bool(r))
                return I(int(r))
            v = vals[i]
            if v.n is True:
                return NULL
            pv = v.v
            if v.k == "t" and is_sym(pv):
                res = None
                for idx in range(len(pool) - 1, -1, -1):
                    sub = rec(i + 1, acc + [pool.strings[idx]])
                    res = sub if res is None else v_ite(self.ctx, pv == idx, sub, res)
                return res
            if is_sym(pv):
                raise Unsupported("text function with a symbolic numeric argument")
            return rec(i + 1, acc + [pv])

        res = rec(0, [])
        return V(res.k, bOr(n, res.n), res.v)

    # -- FROM / SELECT --------------------------------------------------------------------------
    def table_bag(self, name, sc: Scope) -> Bag:
        cte = sc.lookup_cte(name)
        if cte is not None:
            return cte
        ts = self.ctx.tables.get(name)
        if ts is None:
            raise Unsupported(f"unknown table {name}")
        cols = ts.table.colnames
        return Bag(cols, [(r.present, [r.vals[c] for c in cols]) for r in ts.rows if r.present is not False])

    def select(self, st, sc: Scope) -> Bag:
        """select_stmt -> Bag.  `sc` is a fresh child scope whose parent provides correlation."""
        kids = list(st.children)
        idx = 0
        if isinstance(kids[0], lark.Tree) and D(kids[0]) == "with_clause":
            self.with_clause(kids[0], sc)
            idx = 1
        compound = kids[idx]
        order = next((k for k in kids[idx + 1 :] if D(k) == "order_by"), None)
        limit = next((k for k in kids[idx + 1 :] if D(k) == "limit"), None)
        cores = [k for k in compound.children if D(k) == "select_core"]
        ops = [k for k in compound.children if D(k) == "set_op"]
        if len(cores) == 1:
            return self.select_core(cores[0], sc, order, limit)
        if order is not None or limit is not None:
            raise Unsupported("ORDER BY/LIMIT on a compound select")
        bags = [self.select_core(cr, sc, None, None) for cr in cores]
        out = Bag(bags[0].cols, list(bags[0].rows))
        for op, b in zip(ops, bags[1:]):
            out.rows += b.rows
            if not any(isinstance(t, lark.Token) and t.type == "ALL" for t in op.children):
                out = self.distinct(out)
        return out

    def with_clause(self, wc, sc: Scope):
        recursive = any(isinstance(k, lark.Token) and k.type == "RECURSIVE" for k in wc.children)
        for cte in [k for k in wc.children if isinstance(k, lark.Tree) and D(k) == "cte"]:
            name = str(cte.children[0])
            colnames = None
            sub = cte.children[-1]
            if len(cte.children) == 3:
                colnames = [str(x) for x in cte.children[1].children]
            sc.ctes[name] = self.cte(name, colnames, sub, sc, recursive)

    def cte(self, name, colnames, sub, sc, recursive) -> Bag:
        kids = list(sub.children)
        compound = next(k for k in kids if D(k) == "compound")
        cores = [k for k in compound.children if D(k) == "select_core"]
        ops = [k for k in compound.children if D(k) == "set_op"]
        refs_self = recursive and len(cores) > 1 and _mentions_table(cores[-1], name)
        if not refs_self:
            bag = self.select(sub, sc.child())
            if colnames:
                bag = Bag(colnames, bag.rows)
            return bag
        if len(cores) != 2:
            raise Unsupported("recursive CTE with more than two arms")
        union_all = any(isinstance(t, lark.Token) and t.type == "ALL" for t in ops[0].children)
        inner = sc.child()
        seed = self.select_core(cores[0], inner, None, None)
        cols = colnames or seed.cols
        seed = self.merge_exclusive(Bag(cols, seed.rows))
        level = Bag(cols, seed.rows)
        total = Bag(cols, list(seed.rows))
        if not union_all:
            level = self.distinct(level)
            total = Bag(cols, list(level.rows))
        depth = self.ctx.cte_depth
        for it in range(depth + 1):
            isc = sc.child()
            isc.ctes[name] = level
            nxt = self.select_core(cores[1], isc, None, None)
            nxt = self.merge_exclusive(Bag(cols, nxt.rows))
            if not union_all:
                # keep only rows not already in total (set semantics)
                nxt = self.distinct(nxt)
                fresh = []
                for g, vals in nxt.rows:
                    dup = bOr(*[bAnd(g2, self._row_eq(vals, v2)) for g2, v2 in total.rows])
                    gg = bAnd(g, bNot(dup))
                    if gg is not False:
                        fresh.append((gg, vals))
                nxt = Bag(cols, fresh)
            if it == depth:
                # unwinding assertion: one more iteration adds nothing
                extra = bOr(*[g for g, _ in nxt.rows])
                if extra is not False:
                    self.ctx.unwinding.append((f"recursive CTE {name} unrolled {depth} times", extra))
                break
            if not nxt.rows:
                break
            total.rows += nxt.rows
            level = nxt
        return total

    def merge_exclusive(self, bag: Bag) -> Bag:
        """Merge rows that can never be present together (decided by the solver) and agree on their
        concrete columns into one row `(g1 or g2, ite(g1, vals1, vals2))`.  Exact for bags, and it
        keeps the unrolling of recursive CTEs linear in the number of nodes instead of exponential
        in the depth (a node has one creator, so at most one chain of a given length reaches it)."""
        groups = {}
        order = []
        for g, vals in bag.rows:
            key = tuple((i, v.v) for i, v in enumerate(vals) if v.concrete and not isinstance(v.v, tuple))
            try:
                hash(key)
            except TypeError:
                key = id(vals)
            if key not in groups:
                groups[key] = []
                order.append(key)
            groups[key].append((g, vals))
        out = []
        for key in order:
            rows = groups[key]
            if len(rows) == 1:
                out.append(rows[0])
                continue
            if all(isinstance(g, bool) for g, _ in rows):
                out.extend(rows)  # concrete run: nothing to gain
                continue
            guards = [bz(g) for g, _ in rows]
            s = z3.Solver()
            s.set("timeout", 20000)
            for c in getattr(self.ctx, "base_constraints", []):
                s.add(c)
            s.add(z3.PbGe([(g, 1) for g in guards], 2))
            if s.check() != z3.unsat:
                out.extend(rows)
                continue
            g_all = bOr(*[g for g, _ in rows])
            merged = list(rows[-1][1])
            for g, vals in reversed(rows[:-1]):
                merged = [v_ite(self.ctx, g, a, b) for a, b in zip(vals, merged)]
            out.append((g_all, merged))
            self.ctx.stats["rows_merged"] = self.ctx.stats.get("rows_merged", 0) + len(rows) - 1
        return Bag(bag.cols, out)

    def _row_eq(self, a, b):
        return bAnd(*[v_eq_payload(self.ctx, x, y) for x, y in zip(a, b)])

    def collapse_identical(self, bag: Bag) -> Bag:
        """Rows whose value terms are syntactically identical are one row under set semantics
        (guard = disjunction).  Exact for DISTINCT / IN / EXISTS consumers; turns the quadratic
        semantic de-duplication into one over the few genuinely different value terms."""
        groups = {}
        order = []
        for g, vals in bag.rows:
            key = []
            for v in vals:
                key.append((v.k, v.n.get_id() if is_sym(v.n) else v.n, v.v.get_id() if is_sym(v.v) else v.v))
            key = tuple(key)
            try:
                hash(key)
            except TypeError:
                key = ("id", id(vals))
            if key in groups:
                groups[key][0].append(g)
            else:
                groups[key] = ([g], vals)
                order.append(key)
        return Bag(bag.cols, [(bOr(*groups[k][0]), groups[k][1]) for k in order])

    def distinct(self, bag: Bag) -> Bag:
        bag = self.collapse_identical(bag)
        out = []
        for i, (g, vals) in enumerate(bag.rows):
            dup = bOr(*[bAnd(g2, self._row_eq(vals, v2)) for g2, v2 in bag.rows[:i]])
            gg = bAnd(g, bNot(dup))
            if gg is not False:
                out.append((gg, vals))
        return Bag(bag.cols, out)

    def from_rows(self, fc, sc: Scope):
        """FROM clause -> list of (guard, Scope-with-bindings)."""
        rows = [(True, sc)]
        if fc is None:
            return rows
        kids = list(fc.children)
        i = 0
        first = True
        while i < len(kids):
            if first:
                op = "j_comma"
                item = kids[i]
                i += 1
                first = False
            else:
                op = D(kids[i])
                item = kids[i + 1]
                i += 2
            cond = None
            if i < len(kids) and D(kids[i]) == "join_cond":
                cond = kids[i].children[0]
                i += 1
            alias, src = self.from_item(item, sc)
            new_rows = []
            for g, rsc in rows:
                matches = []
                for sg, cols in src:
                    nsc = rsc.with_binding(alias, cols)
                    cg = bAnd(g, sg)
                    if cg is False:
                        continue
                    if cond is not None:
                        # parameters inside ON clauses are not supported (position bookkeeping)
                        cv = truth(self.expr(cond, nsc))
                        cg = bAnd(cg, cv)
                    if cg is not False:
                        matches.append((cg, nsc))
                new_rows += matches
                if op == "j_left":
                    none = bAnd(g, bNot(bOr(*[m[0] for m in matches])))
                    if none is not False:
                        colnames = src[0][1].keys() if src else self._item_cols(item, sc)
                        nullcols = {cn: NULL for cn in (colnames if src else self._item_cols(item, sc))}
                        new_rows.append((none, rsc.with_binding(alias, nullcols)))
            rows = new_rows
            self.ctx.stats["rows_built"] += len(rows)
        return rows

    def _item_cols(self, item, sc):
        if D(item) == "from_table":
            name = str(item.children[0])
            cte = sc.lookup_cte(name)
            if cte is not None:
                return cte.cols
            return self.ctx.tables[name].table.colnames
        raise Unsupported("LEFT JOIN on an empty subquery")

    def from_item(self, item, sc: Scope):
        if D(item) == "from_table":
            names = [str(k) for k in item.children if isinstance(k, lark.Token) and k.type == "NAME"]
            name = names[0]
            alias = names[1] if len(names) > 1 else name
            cte = sc.lookup_cte(name)
            if cte is not None:
                return alias, [(g, dict(zip(cte.cols, vals))) for g, vals in cte.rows]
            ts = self.ctx.tables.get(name)
            if ts is None:
                raise Unsupported(f"unknown table {name}")
            return alias, [(r.present, r.vals) for r in ts.rows if r.present is not False]
        if D(item) == "from_sub":
            sub = item.children[0]
            alias = str(item.children[1]) if len(item.children) > 1 else "_sub"
            bag = self.select(sub, sc.child())
            return alias, [(g, dict(zip(bag.cols, vals))) for g, vals in bag.rows]
        raise Unsupported(D(item))

    def select_core(self, core, sc: Scope, order, limit) -> Bag:
        kids = list(core.children)
        distinct = any(isinstance(k, lark.Token) and k.type == "DISTINCT" for k in kids)
        rcols = [k for k in kids if isinstance(k, lark.Tree) and D(k) in ("rcol", "rstar", "rtstar")]
        fc = next((k for k in kids if isinstance(k, lark.Tree) and D(k) == "from_clause"), None)
        wc = next((k for k in kids if isinstance(k, lark.Tree) and D(k) == "where_clause"), None)
        gb = next((k for k in kids if isinstance(k, lark.Tree) and D(k) == "group_by"), None)
        hv = next((k for k in kids if isinstance(k, lark.Tree) and D(k) == "having"), None)
        # NOTE on parameter order: positional parameters are consumed in textual order, which for
        # the supported statements is: result columns, FROM (subqueries), WHERE, GROUP BY, ...
        # Result columns are evaluated per row, so a '?' in a result column would be consumed once
        # per row.  To keep the numbering right, result-column and where parameters are pre-bound.
        rcols_b, fc_b, wc_b = rcols, fc, wc
        rows = self.from_rows(fc_b, sc)
        if wc_b is not None:
            filtered = []
            for g, rsc in rows:
                gg = bAnd(g, truth(self.expr(wc_b.children[0], rsc)))
                if gg is not False:
                    filtered.append((gg, rsc))
            rows = filtered
        has_agg = any(_has_aggregate(rc) for rc in rcols_b) or (hv is not None and _has_aggregate(hv))
        names = self._result_names(rcols_b, rows, sc)
        if gb is None and not has_agg:
            out = []
            for g, rsc in rows:
                out.append((g, self._result_vals(rcols_b, rsc)))
            bag = Bag(names, out)
        else:
            bag = self.group(rcols_b, rows, gb, hv, sc, names)
        if distinct:
            bag = self.distinct(bag)
        if order is not None or limit is not None:
            bag = self.order_limit(bag, rows, order, limit, sc, rcols_b, gb is not None or has_agg or distinct)
        return bag

    def _prebind(self, rcols, fc, wc, sc):
        """Replace positional parameters in result columns / WHERE by their values, in textual order."""

        def bind(tree):
            if tree is None:
                return None
            if not isinstance(tree, lark.Tree):
                return tree
            if D(tree) == "p_pos":
                v = sc.params.next()
                return lark.Tree("bound", [v])
            if D(tree) in ("select_stmt",):
                # subqueries consume their parameters when evaluated; evaluate order is textual for
                # uncorrelated use.  Bind inside too so that per-row re-evaluation is stable.
                return lark.Tree(D(tree), [bind(k) for k in tree.children], tree.meta)
            return lark.Tree(D(tree), [bind(k) for k in tree.children], tree.meta)

        if sc.params is None or not sc.params.pos:
            return rcols, fc, wc
        return [bind(r) for r in rcols], bind(fc), bind(wc)

    def x_bound(self, c, sc):
        return c[0]

    def _result_names(self, rcols, rows, sc):
        names = []
        for rc in rcols:
            if D(rc) == "rcol":
                if len(rc.children) > 1:
                    names.append(str(rc.children[1]))
                else:
                    e = rc.children[0]
                    if isinstance(e, lark.Tree) and D(e) == "e_col":
                        names.append(str(e.children[0]))
                    elif isinstance(e, lark.Tree) and D(e) == "e_qcol":
                        names.append(str(e.children[1]))
                    else:
                        names.append(f"col{len(names)}")
            else:
                # star: expand from the first row's bindings or from the FROM items
                if rows:
                    rsc = rows[0][1]
                    for alias, cols in rsc.bindings:
                        if D(rc) == "rstar" or alias == str(rc.children[0]):
                            names += list(cols.keys())
                else:
                    names.append("*")
        return names

    def _result_vals(self, rcols, rsc):
        vals = []
        for rc in rcols:
            if D(rc) == "rcol":
                vals.append(self.expr(rc.children[0], rsc))
            else:
                for alias, cols in rsc.bindings:
                    if D(rc) == "rstar" or alias == str(rc.children[0]):
                        vals += list(cols.values())
        return vals

    def group(self, rcols, rows, gb, hv, sc, names) -> Bag:
        if gb is None:
            gsc = Scope(sc)
            gsc.agg = rows
            if rows:
                # bare columns: value of the first present row
                gsc = self._bare_scope(rows, sc)
                gsc.agg = rows
            vals = self._result_vals(rcols, gsc)
            g = True
            if hv is not None:
                g = truth(self.expr(hv.children[0], gsc))
            return Bag(names, [(g, vals)] if g is not False else [])
        keys = []
        for g, rsc in rows:
            ks = []
            for ge in gb.children:
                if isinstance(ge, lark.Tree) and D(ge) == "l_num":
                    idx = int(str(ge.children[0])) - 1
                    ks.append(self.expr(rcols[idx].children[0], rsc))
                else:
                    ks.append(self.expr(ge, rsc))
            keys.append(ks)
        out = []
        for i, (g, rsc) in enumerate(rows):
            earlier = bOr(*[bAnd(rows[j][0], self._row_eq(keys[i], keys[j])) for j in range(i)])
            leader = bAnd(g, bNot(earlier))
            if leader is False:
                continue
            members = []
            for j, (g2, rsc2) in enumerate(rows):
                mg = bAnd(g2, self._row_eq(keys[i], keys[j])) if j != i else g2
                if mg is not False:
                    members.append((mg, rsc2))
            gsc = self._group_scope(rcols, rsc, members)
            vals = self._result_vals(rcols, gsc)
            if hv is not None:
                leader = bAnd(leader, truth(self.expr(hv.children[0], gsc)))
            if leader is not False:
                out.append((leader, vals))
        return Bag(names, out)

    def _group_scope(self, rcols, rsc, members):
        """Scope for evaluating the result columns of one group.

        SQLite rule for bare columns: when the query has exactly one min()/max() aggregate, bare
        columns take their values from the row that holds that minimum/maximum; otherwise from an
        arbitrary row of the group (the first present member is used, which is exact whenever the
        bare columns are functionally dependent on the group key, as in the live statements)."""
        single = _single_minmax(rcols)
        if single is None or len(members) <= 1:
            gsc = rsc.with_binding("_grp", {})
            gsc.agg = members
            return gsc
        fname, arg = single
        keys = []
        for g, msc in members:
            keys.append(to_int(self.expr(arg, msc)))
        chosen = []
        for k, (g, msc) in enumerate(members):
            better_or_equal = []
            for k2, (g2, _) in enumerate(members):
                if k2 == k:
                    continue
                op = ">" if fname == "max" else "<"
                strictly = v_cmp(self.ctx, op, keys[k2], keys[k]).v
                tie_earlier = bAnd(v_cmp(self.ctx, "=", keys[k2], keys[k]).v, k2 < k)
                better_or_equal.append(bAnd(g2, bNot(keys[k2].n), bOr(strictly, tie_earlier)))
            chosen.append(bAnd(g, bNot(keys[k].n), bNot(bOr(*better_or_equal))))
        merged = self._bare_scope([(c, msc) for c, (_, msc) in zip(chosen, members)], rsc)
        merged.agg = members
        return merged

    def _bare_scope(self, rows, sc):
        """Scope whose columns take the value of the first present row (for bare columns in aggregates)."""
        first = rows[0][1]
        merged = Scope(first.parent, first.params, first.ctes)
        merged.bindings = []
        for bi, (alias, cols) in enumerate(first.bindings):
            mcols = {}
            for cn in cols:
                acc = cols[cn]
                for g, rsc in reversed(rows[1:]):
                    pass
                # fold: first present row wins
                res = None
                for g, rsc in reversed(rows):
                    v = rsc.bindings[bi][1][cn]
                    res = v if res is None else v_ite(self.ctx, g, v, res)
                mcols[cn] = res
            merged.bindings.append((alias, mcols))
        return merged

    def order_limit(self, bag, rows, order, limit, sc, rcols, grouped) -> Bag:
        if limit is None:
            return bag  # ordering of a full result is irrelevant for a bag
        lim = self.expr(limit.children[0], sc)
        if is_sym(lim.v) or lim.v != 1:
            raise Unsupported("LIMIT other than 1")
        if len(bag.rows) <= 1:
            return bag
        # choose one present row; when ORDER BY terms are encodable, require it to be maximal.
        chosen = [self.ctx.fresh("pick") for _ in bag.rows]
        present = [g for g, _ in bag.rows]
        self.ctx.assumptions.append(bz(bOr(*present)) == bz(bOr(*[bAnd(c, g) for c, g in zip(chosen, present)])))
        for i in range(len(chosen)):
            self.ctx.assumptions.append(z3.Implies(chosen[i], bz(present[i])))
            for j in range(i):
                self.ctx.assumptions.append(z3.Not(z3.And(chosen[i], chosen[j])))
        if order is not None and not grouped and len(rows) == len(bag.rows):
            try:
                keys = []
                for (g, rsc) in rows:
                    ks = []
                    for term in order.children:
                        desc = any(isinstance(t, lark.Token) and t.type == "DESC" for t in term.children)
                        ks.append((to_int(self.expr(term.children[0], rsc)), desc))
                    keys.append(ks)
                for i in range(len(rows)):
                    for j in range(len(rows)):
                        if i == j:
                            continue
                        better = self._lex_better(keys[j], keys[i])
                        self.ctx.assumptions.append(z3.Implies(z3.And(chosen[i], bz(present[j])), z3.Not(bz(better))))
            except Unsupported as exc:
                self.ctx.notes.append(f"ORDER BY not encoded ({exc}); LIMIT 1 picks an arbitrary row (sound over-approximation)")
        elif order is not None:
            self.ctx.notes.append("ORDER BY on grouped/distinct result not encoded; LIMIT 1 picks an arbitrary row")
        return Bag(bag.cols, [(bAnd(g, c), vals) for (g, vals), c in zip(bag.rows, chosen)])

    def _lex_better(self, a, b):
        """row with keys a sorts strictly before row with keys b"""
        res = False
        for (va, desc), (vb, _) in reversed(list(zip(a, b))):
            if va.n is not False or vb.n is not False:
                raise Unsupported("NULL in ORDER BY key")
            lt = v_cmp(self.ctx, ">" if desc else "<", va, vb).v
            eq = v_cmp(self.ctx, "=", va, vb).v
            res = bOr(lt, bAnd(eq, res))
        return res


def _sum_int(terms):
    total = 0
    for t in terms:
        total = total + t
    return total


def _substr(s, a, b):
    # SQLite substr with 1-based start (only the forms used: positive start)
    if a < 1:
        raise Unsupported("substr with start < 1")
    if b is None:
        return s[a - 1 :]
    if b < 0:
        raise Unsupported("substr with negative length")
    return s[a - 1 : a - 1 + b]


def _single_minmax(rcols):
    """(name, arg tree) when the result columns contain exactly one aggregate and it is min/max."""
    found = []

    def rec(t):
        if not isinstance(t, lark.Tree):
            return
        if t.data in ("e_exists", "e_subquery", "in_select", "select_stmt"):
            return
        if t.data == "e_func_star":
            found.append(("count", None))
            return
        if t.data == "e_func":
            name = str(t.children[0]).lower()
            args = [k for k in t.children[1:] if isinstance(k, lark.Tree)]
            if name in AGGREGATES and len(args) == 1:
                found.append((name, args[0]))
                return
        for k in t.children:
            rec(k)

    for rc in rcols:
        rec(rc)
    if len(found) == 1 and found[0][0] in ("min", "max"):
        return found[0]
    return None


def _has_aggregate(tree):
    if not isinstance(tree, lark.Tree):
        return False
    if D(tree) in ("e_exists", "e_subquery", "in_select", "select_stmt"):
        return False
    if D(tree) == "e_func_star":
        return True
    if D(tree) == "e_func":
        name = str(tree.children[0]).lower()
        args = [k for k in tree.children[1:] if isinstance(k, lark.Tree)]
        if name in AGGREGATES and len(args) == 1:
            return True
    return any(_has_aggregate(k) for k in tree.children)


def _mentions_table(tree, name):
    if not isinstance(tree, lark.Tree):
        return False
    if D(tree) == "from_table" and str(tree.children[0]) == name:
        return True
    return any(_mentions_table(k, name) for k in tree.children)
