"""Everything that is read from the live /repo tree for E-SQL: schema scripts, enums, SQL text."""

from __future__ import annotations


def schema_scripts():
    from stepup.core.workflow import Workflow

    scripts = [Workflow.schema()]
    for cls in Workflow.default_node_classes():
        s = cls.schema()
        if s is not None:
            scripts.append(s)
    return scripts


def scheduler_temp_ddl():
    from stepup.core import scheduler as sch

    return [
        sch.INIT_AVAILABLE_RESOURCE,
        sch.INIT_CHECK_AFTER,
        sch.INIT_CHANGED_AFTER,
        sch.INIT_SAFE_UPDATE,
        sch.INIT_TARGET_PATH,
        sch.INIT_TARGET_DIR,
    ]


IGNORED_TABLES = ("step_need_count", "step_outcome", "step_subprocess")

DEFAULT_POOL = [
    "",
    "root",
    "file",
    "step",
    "st",
    "a",
    "b",
    "d/",
    "d/x",
    "d0",
    "p",
    "q",
]


def like_case_sensitive():
    from stepup.core.sqlite3 import connect

    con = connect(":memory:")
    try:
        return not bool(con.execute("SELECT 'a' LIKE 'A'").fetchone()[0])
    finally:
        con.close()


def hash_json_pool():
    """A few real FileHash / StepHash JSON strings (opaque atoms for hash columns)."""
    from stepup.core.hash import FileHash, StepHash

    out = []
    for d in (b"\x01" * 32, b"\x02" * 32):
        fh = FileHash(digest=d, mode=0o100644, mtime=1.0, size=3, inode=7)
        out.append(fh.to_json())
    return out


def step_hash_json_pool():
    """Real StepHash JSON strings for the step_hash.hash column."""
    from stepup.core.hash import StepHash

    return [StepHash(b"\x03" * 32, None, b"\x04" * 32, None).to_json()]
