"""Source-to-source rewriting of live functions (regenerated from /repo on every run).

`without_fstrings(fn)` recompiles a function from its live source with every f-string replaced
by a constant.  Error-message formatting realises symbolic values in CrossHair (and forked 61% of
the states in the tcpdump study cited in the brief); the control flow is untouched.
"""

from __future__ import annotations

import ast
import inspect
import textwrap


class _Strip(ast.NodeTransformer):
    def visit_JoinedStr(self, node):
        return ast.copy_location(ast.Constant(value="<message>"), node)


def without_fstrings(fn):
    raw = fn.__func__ if isinstance(fn, (classmethod, staticmethod)) else fn
    src = textwrap.dedent(inspect.getsource(raw))
    tree = ast.parse(src)
    tree = _Strip().visit(tree)
    fdef = tree.body[0]
    fdef.decorator_list = []
    ast.fix_missing_locations(tree)
    ns = {}
    code = compile(tree, f"<rewritten {raw.__qualname__}>", "exec")
    glb = raw.__globals__
    exec(code, glb, ns)  # definitions land in ns, globals are the live module's
    new = ns[fdef.name]
    new.__qualname__ = raw.__qualname__
    return new
