"""E-Z3 string engine: a bounded string domain in linear integer arithmetic and a small symbolic
interpreter for straight-line Python string code, driven by the *live* AST of the function.

Domain
------
``SStr`` is a *sparse* bounded string: an ordered list of ``(guard, char)`` cells; the string
it denotes is the concatenation of the chars whose guard is true.  A *dense* string of maximal
length N and symbolic length ``n`` is the special case ``guard_i = (i < n)``.  All operations the
encoded functions perform (``+``, f-strings, ``replace`` with a one-character needle,
``startswith/endswith`` with constants, ``[:-1]``, ``==``, ordered comparison on dense strings)
stay inside the domain, and every formula is quantifier-free linear integer arithmetic, which z3
decides quickly; no z3 sequence theory is used (probed in the design round: Seq with symbolic
lengths and ``If`` over sequences returned unknown).

Characters are integers (Unicode code points).  The string domain of a query is stated by the
caller through ``valid_chars``.

Interpreter
-----------
``run_function(fn, args)`` executes the function's AST symbolically and returns every feasible
path as ``Path(cond, kind, value)`` with kind ``return`` or ``raise``.  An AST node outside the
supported subset raises ``Unsupported`` which the caller must report as inconclusive.
"""

from __future__ import annotations

import ast
import dataclasses
import inspect
import textwrap

import z3


class Unsupported(Exception):
    pass


def _b(x):
    return z3.BoolVal(x) if isinstance(x, bool) else x


def And(*xs):
    xs = [x for x in xs if not (isinstance(x, bool) and x)]
    if any(isinstance(x, bool) and not x for x in xs):
        return z3.BoolVal(False)
    if not xs:
        return z3.BoolVal(True)
    return z3.And(*[_b(x) for x in xs]) if len(xs) > 1 else _b(xs[0])


def Or(*xs):
    xs = [x for x in xs if not (isinstance(x, bool) and not x)]
    if any(isinstance(x, bool) and x for x in xs):
        return z3.BoolVal(True)
    if not xs:
        return z3.BoolVal(False)
    return z3.Or(*[_b(x) for x in xs]) if len(xs) > 1 else _b(xs[0])


def Not(x):
    if isinstance(x, bool):
        return not x
    return z3.Not(x)


def ite(c, a, b):
    if isinstance(c, bool):
        return a if c else b
    if isinstance(a, bool) or isinstance(b, bool):
        return z3.If(c, _b(a), _b(b))
    return z3.If(c, a, b)


def eqv(a, b):
    """Equality of ints (python or z3)."""
    if isinstance(a, int) and isinstance(b, int):
        return a == b
    return a == b


class SStr:
    """Sparse bounded symbolic string: list of (guard, char)."""

    __slots__ = ("cells", "dense_len")

    def __init__(self, cells, dense_len=None):
        self.cells = list(cells)
        # When not None: the string is dense, guards are (i < dense_len).
        self.dense_len = dense_len

    # construction -----------------------------------------------------------------------
    @staticmethod
    def const(s: str) -> "SStr":
        return SStr([(True, ord(c)) for c in s], dense_len=len(s))

    @staticmethod
    def fresh(name: str, maxlen: int) -> "SStr":
        n = z3.Int(f"{name}.len")
        chars = [z3.Int(f"{name}[{i}]") for i in range(maxlen)]
        return SStr([(i < n, chars[i]) for i in range(maxlen)], dense_len=n)

    def wellformed(self, maxlen=None):
        """Constraint for a fresh dense string: 0 <= len <= N."""
        n = self.dense_len
        if isinstance(n, int):
            return True
        return And(n >= 0, n <= len(self.cells))

    def chars_in(self, pred):
        """Every present char satisfies pred(char)."""
        return And(*[Or(Not(g), pred(c)) for g, c in self.cells])

    # queries ----------------------------------------------------------------------------
    def length(self):
        if self.dense_len is not None:
            return self.dense_len
        return z3.Sum([ite(g, 1, 0) for g, _ in self.cells]) if self.cells else 0

    def is_dense(self):
        return self.dense_len is not None

    def __add__(self, other: "SStr") -> "SStr":
        other = coerce(other)
        if self.is_dense() and isinstance(self.dense_len, int) and self.dense_len == len(self.cells):
            if other.is_dense():
                n = other.dense_len
                total = self.dense_len + n
                return SStr(self.cells + other.cells, dense_len=total)
        if self.is_dense() and other.is_dense() and all(g is True for g, _ in other.cells):
            # dense ++ constant stays dense: shift the constant by the symbolic length.
            n = self.dense_len
            k = len(other.cells)
            N = len(self.cells)
            out = []
            for i in range(N + k):
                # char at i: own char if i < n, else const[i - n]
                ch = None
                # build from the end: default arbitrary 0
                expr = 0
                for j in range(k - 1, -1, -1):
                    expr = ite(eqv(n, i - j) if i - j >= 0 else False, other.cells[j][1], expr)
                if i < N:
                    expr = ite(self.cells[i][0], self.cells[i][1], expr)
                ch = expr
                out.append((_lt(i, n + k), ch))
            return SStr(out, dense_len=n + k)
        return SStr(self.cells + other.cells)

    def __radd__(self, other):
        return coerce(other) + self

    def drop_last(self) -> "SStr":
        """s[:-1]"""
        if self.is_dense():
            n = self.dense_len
            if isinstance(n, int):
                return SStr(self.cells[: max(n - 1, 0)], dense_len=max(n - 1, 0))
            m = ite(n > 0, n - 1, 0)
            return SStr([(_lt(i, m), c) for i, (_, c) in enumerate(self.cells)], dense_len=m)
        # sparse: drop the last present cell
        out = []
        later = False  # "some later cell is present"
        for g, c in reversed(self.cells):
            out.append((And(g, later), c))
            later = Or(later, g)
        out.reverse()
        return SStr(out)

    def replace_char(self, needle: int, repl: "SStr") -> "SStr":
        """str.replace(needle, repl) for a one-character needle (non-overlapping by construction)."""
        out = []
        for g, c in self.cells:
            hit = eqv(c, needle)
            for rg, rc in repl.cells:
                out.append((And(g, hit, rg), rc))
            out.append((And(g, Not(hit)), c))
        return SStr(out)

    def startswith(self, prefix) -> object:
        prefix = coerce(prefix)
        if self.is_dense() and prefix.is_dense():
            n, m = self.dense_len, prefix.dense_len
            conds = [_le(m, n)]
            for i, (pg, pc) in enumerate(prefix.cells):
                if i < len(self.cells):
                    conds.append(Or(Not(pg), eqv(self.cells[i][1], pc)))
                else:
                    conds.append(Not(pg))
            return And(*conds)
        return _sparse_prefix(prefix, self)

    def endswith(self, suffix) -> object:
        suffix = coerce(suffix)
        if not (suffix.is_dense() and all(g is True for g, _ in suffix.cells)):
            raise Unsupported("endswith with a non-constant suffix")
        k = len(suffix.cells)
        if k != 1:
            raise Unsupported("endswith with a multi-character suffix")
        ch = suffix.cells[0][1]
        if self.is_dense():
            n = self.dense_len
            if isinstance(n, int):
                return n > 0 and _b(eqv(self.cells[n - 1][1], ch))
            return Or(*[And(eqv(n, i + 1), eqv(c, ch)) for i, (_, c) in enumerate(self.cells)])
        conds = []
        later = False
        for g, c in reversed(self.cells):
            conds.append(And(g, Not(later), eqv(c, ch)))
            later = Or(later, g)
        return Or(*conds)

    def equals(self, other) -> object:
        other = coerce(other)
        if self.is_dense() and other.is_dense():
            n, m = self.dense_len, other.dense_len
            conds = [eqv(n, m)]
            for i in range(max(len(self.cells), len(other.cells))):
                if i < len(self.cells) and i < len(other.cells):
                    conds.append(Or(Not(self.cells[i][0]), eqv(self.cells[i][1], other.cells[i][1])))
                elif i < len(self.cells):
                    conds.append(Not(self.cells[i][0]))
                else:
                    conds.append(Not(other.cells[i][0]))
            return And(*conds)
        return And(_sparse_prefix(self, other), eqv(self.length(), other.length()))

    def less(self, other, strict=True) -> object:
        """Lexicographic order by code point (== BINARY collation on valid UTF-8)."""
        other = coerce(other)
        if not (self.is_dense() and other.is_dense()):
            raise Unsupported("ordered comparison of sparse strings")
        N = max(len(self.cells), len(other.cells))
        n, m = self.dense_len, other.dense_len
        res = (not strict) if True else None
        # positions beyond both: equal -> result = not strict
        acc = not strict
        for i in range(N - 1, -1, -1):
            a_in = _lt(i, n) if i < len(self.cells) else False
            b_in = _lt(i, m) if i < len(other.cells) else False
            a_c = self.cells[i][1] if i < len(self.cells) else 0
            b_c = other.cells[i][1] if i < len(other.cells) else 0
            # at position i:
            #  a ended: a<b iff b continues (strict) / true (non-strict, or b continues)
            #  b ended and a continues: false
            #  both continue: a_c<b_c or (a_c==b_c and acc)
            both = And(a_in, b_in)
            a_end = Not(a_in)
            acc = ite(
                both,
                Or(_ltv(a_c, b_c), And(eqv(a_c, b_c), acc)),
                ite(a_end, Or(b_in, not strict), False),
            )
        return acc

    # concretisation ---------------------------------------------------------------------
    def eval(self, model) -> str:
        out = []
        for g, c in self.cells:
            gv = g if isinstance(g, bool) else z3.is_true(model.eval(g, model_completion=True))
            if gv:
                cv = c if isinstance(c, int) else model.eval(c, model_completion=True).as_long()
                out.append(chr(cv))
        return "".join(out)


def _lt(i, n):
    if isinstance(i, int) and isinstance(n, int):
        return i < n
    return i < n


def _le(a, b):
    if isinstance(a, int) and isinstance(b, int):
        return a <= b
    return a <= b


def _ltv(a, b):
    if isinstance(a, int) and isinstance(b, int):
        return a < b
    return a < b


def _sparse_prefix(prefix: SStr, s: SStr):
    """prefix (sparse) is a prefix of s (sparse): DP over cells."""
    P, S = prefix.cells, s.cells
    # M[i][j]: prefix[i:] is a prefix of s[j:]
    M = [[None] * (len(S) + 2) for _ in range(len(P) + 1)]
    for j in range(len(S) + 1):
        M[len(P)][j] = True
    for i in range(len(P) - 1, -1, -1):
        pg, pc = P[i]
        M[i][len(S)] = And(Not(pg), M[i + 1][len(S)])
        for j in range(len(S) - 1, -1, -1):
            sg, sc = S[j]
            M[i][j] = ite(
                pg,
                ite(sg, And(eqv(pc, sc), M[i + 1][j + 1]), M[i][j + 1]),
                M[i + 1][j],
            )
    return M[0][0]


def coerce(x) -> SStr:
    if isinstance(x, SStr):
        return x
    if isinstance(x, str):
        return SStr.const(x)
    raise Unsupported(f"cannot coerce {type(x).__name__} to SStr")


# ---------------------------------------------------------------------------------------------
# LIKE (after SQLite's patternCompare), over a sparse pattern and a dense text
# ---------------------------------------------------------------------------------------------


def like(pattern: SStr, text: SStr, escape: int | None, case_sensitive: bool):
    """Symbolic `text LIKE pattern ESCAPE escape` as SQLite evaluates it.

    `%` any sequence, `_` one character, escape makes the next pattern character literal (an
    escape at the very end of the pattern matches nothing); letters A-Z/a-z compare equal
    ignoring case unless `case_sensitive`.
    """
    P = pattern.cells
    T = text.cells
    nT = len(T)

    def ceq(a, b):
        if case_sensitive:
            return eqv(a, b)

        def fold(c):
            if isinstance(c, int):
                return c + 32 if 65 <= c <= 90 else c
            return z3.If(z3.And(c >= 65, c <= 90), c + 32, c)

        return eqv(fold(a), fold(b))

    # M[i][j][e]
    M = [[[None, None] for _ in range(nT + 2)] for _ in range(len(P) + 1)]
    for j in range(nT + 1):
        t_end = Not(T[j][0]) if j < nT else True  # dense: text ends at j iff cell j absent
        M[len(P)][j][0] = t_end
        M[len(P)][j][1] = False
    M[len(P)][nT + 1] = [False, False]
    for i in range(len(P) - 1, -1, -1):
        pg, pc = P[i]
        for j in range(nT, -1, -1):
            t_has = T[j][0] if j < nT else False
            tc = T[j][1] if j < nT else 0
            nxt_j = j + 1 if j < nT else nT + 1

            def cell(ii, jj, e):
                if jj > nT:
                    return False
                return M[ii][jj][e]

            lit = And(t_has, ceq(pc, tc), cell(i + 1, nxt_j, 0))
            e1 = ite(pg, lit, M[i + 1][j][1])
            is_esc = eqv(pc, escape) if escape is not None else False
            is_pct = eqv(pc, ord("%"))
            is_us = eqv(pc, ord("_"))
            e0_present = ite(
                is_esc,
                M[i + 1][j][1],
                ite(
                    is_pct,
                    Or(M[i + 1][j][0], And(t_has, cell(i, nxt_j, 0) if j < nT else False)),
                    ite(is_us, And(t_has, cell(i + 1, nxt_j, 0)), lit),
                ),
            )
            e0 = ite(pg, e0_present, M[i + 1][j][0])
            M[i][j][0] = e0
            M[i][j][1] = e1
        M[i][nT + 1] = [False, False]
    return M[0][0][0]


# ---------------------------------------------------------------------------------------------
# Interpreter
# ---------------------------------------------------------------------------------------------


@dataclasses.dataclass
class Path:
    cond: object
    kind: str  # "return" | "raise"
    value: object


class _Return(Exception):
    def __init__(self, value):
        self.value = value


IDENTITY_CALLS = {"coerce_str", "coerce_path", "str", "Path"}


class Interp:
    """Symbolic executor for straight-line string functions (forks on symbolic `if`)."""

    def __init__(self, fn, extra_globals=None):
        self.fn = fn
        src = textwrap.dedent(inspect.getsource(fn))
        self.tree = ast.parse(src).body[0]
        self.globals = dict(getattr(fn, "__globals__", {}))
        if extra_globals:
            self.globals.update(extra_globals)
        self.paths: list[Path] = []

    def run(self, *args, **kwargs) -> list[Path]:
        params = [a.arg for a in self.tree.args.args]
        env = dict(zip(params, args))
        env.update(kwargs)
        defaults = self.tree.args.defaults
        for p, d in zip(params[len(params) - len(defaults) :], defaults):
            if p not in env:
                env[p] = self.expr(d, {})
        self.paths = []
        self.block(self.tree.body, env, True)
        return self.paths

    # statements ---------------------------------------------------------------------------
    def block(self, stmts, env, cond):
        """Execute stmts under path condition cond; returns list of (env, cond) fallthroughs."""
        states = [(env, cond)]
        for st in stmts:
            nxt = []
            for e, c in states:
                nxt.extend(self.stmt(st, e, c))
            states = nxt
            if not states:
                break
        return states

    def stmt(self, st, env, cond):
        if isinstance(st, ast.Expr):
            if isinstance(st.value, ast.Constant):
                return [(env, cond)]
            self.expr(st.value, env)
            return [(env, cond)]
        if isinstance(st, ast.Assign):
            val = self.expr(st.value, env)
            env = dict(env)
            for tgt in st.targets:
                self.assign(tgt, val, env)
            return [(env, cond)]
        if isinstance(st, ast.AugAssign):
            if not isinstance(st.op, ast.Add) or not isinstance(st.target, ast.Name):
                raise Unsupported(ast.dump(st))
            env = dict(env)
            env[st.target.id] = self.add(env[st.target.id], self.expr(st.value, env))
            return [(env, cond)]
        if isinstance(st, ast.Return):
            val = self.expr(st.value, env) if st.value is not None else None
            self.paths.append(Path(cond, "return", val))
            return []
        if isinstance(st, ast.Raise):
            name = "Exception"
            exc = st.exc
            if isinstance(exc, ast.Call):
                exc = exc.func
            if isinstance(exc, ast.Name):
                name = exc.id
            elif isinstance(exc, ast.Attribute):
                name = exc.attr
            self.paths.append(Path(cond, "raise", name))
            return []
        if isinstance(st, ast.If):
            test = self.truth(self.expr(st.test, env))
            out = []
            if not (isinstance(test, bool) and not test):
                out += self.block(st.body, dict(env), And(cond, test))
            if not (isinstance(test, bool) and test):
                out += self.block(st.orelse, dict(env), And(cond, Not(test)))
            return out
        if isinstance(st, ast.Pass):
            return [(env, cond)]
        raise Unsupported(f"statement {type(st).__name__}")

    def assign(self, tgt, val, env):
        if isinstance(tgt, ast.Name):
            env[tgt.id] = val
        elif isinstance(tgt, ast.Tuple):
            if not isinstance(val, tuple) or len(val) != len(tgt.elts):
                raise Unsupported("tuple unpacking")
            for t, v in zip(tgt.elts, val):
                self.assign(t, v, env)
        else:
            raise Unsupported(f"assign target {type(tgt).__name__}")

    # expressions --------------------------------------------------------------------------
    def truth(self, v):
        if isinstance(v, (bool, z3.BoolRef)):
            return v
        if isinstance(v, SStr):
            n = v.length()
            return n > 0 if not isinstance(n, int) else n > 0
        if isinstance(v, str):
            return bool(v)
        if v is None:
            return False
        raise Unsupported(f"truth of {type(v).__name__}")

    def add(self, a, b):
        if isinstance(a, str) and isinstance(b, str):
            return a + b
        if isinstance(a, (SStr, str)) and isinstance(b, (SStr, str)):
            return coerce(a) + coerce(b)
        raise Unsupported("+ on non-strings")

    def expr(self, e, env):
        if isinstance(e, ast.Constant):
            return e.value
        if isinstance(e, ast.Name):
            if e.id in env:
                return env[e.id]
            if e.id in self.globals:
                return self.globals[e.id]
            import builtins

            if hasattr(builtins, e.id):
                return getattr(builtins, e.id)
            raise Unsupported(f"name {e.id}")
        if isinstance(e, ast.Tuple):
            return tuple(self.expr(x, env) for x in e.elts)
        if isinstance(e, ast.JoinedStr):
            acc = ""
            for part in e.values:
                if isinstance(part, ast.Constant):
                    acc = self.add(acc, part.value)
                elif isinstance(part, ast.FormattedValue):
                    if part.format_spec is not None or part.conversion != -1:
                        raise Unsupported("f-string conversion")
                    v = self.expr(part.value, env)
                    if not isinstance(v, (str, SStr)):
                        raise Unsupported("f-string of non-string")
                    acc = self.add(acc, v)
                else:
                    raise Unsupported("f-string part")
            return acc
        if isinstance(e, ast.BinOp) and isinstance(e.op, ast.Add):
            return self.add(self.expr(e.left, env), self.expr(e.right, env))
        if isinstance(e, ast.BoolOp):
            vals = [self.truth(self.expr(v, env)) for v in e.values]
            return And(*vals) if isinstance(e.op, ast.And) else Or(*vals)
        if isinstance(e, ast.UnaryOp) and isinstance(e.op, ast.Not):
            return Not(self.truth(self.expr(e.operand, env)))
        if isinstance(e, ast.IfExp):
            t = self.truth(self.expr(e.test, env))
            a = self.expr(e.body, env)
            b = self.expr(e.orelse, env)
            if isinstance(t, bool):
                return a if t else b
            return self.merge(t, a, b)
        if isinstance(e, ast.Compare):
            if len(e.ops) != 1:
                raise Unsupported("chained comparison")
            return self.compare(e.ops[0], self.expr(e.left, env), self.expr(e.comparators[0], env))
        if isinstance(e, ast.Subscript):
            v = self.expr(e.value, env)
            sl = e.slice
            if (
                isinstance(sl, ast.Slice)
                and sl.lower is None
                and sl.step is None
                and isinstance(sl.upper, ast.UnaryOp)
                and isinstance(sl.upper.op, ast.USub)
                and isinstance(sl.upper.operand, ast.Constant)
                and sl.upper.operand.value == 1
            ):
                if isinstance(v, str):
                    return v[:-1]
                return coerce(v).drop_last()
            raise Unsupported("subscript other than [:-1]")
        if isinstance(e, ast.Call):
            return self.call(e, env)
        raise Unsupported(f"expression {type(e).__name__}")

    def merge(self, t, a, b):
        """If(t, a, b) for strings: cells of a guarded by t followed by cells of b guarded by not t."""
        if isinstance(a, (str, SStr)) and isinstance(b, (str, SStr)):
            a, b = coerce(a), coerce(b)
            return SStr(
                [(And(t, g), c) for g, c in a.cells] + [(And(Not(t), g), c) for g, c in b.cells]
            )
        if isinstance(a, (bool, z3.BoolRef)) and isinstance(b, (bool, z3.BoolRef)):
            return ite(t, a, b)
        raise Unsupported("merge of non-strings")

    def compare(self, op, a, b):
        if isinstance(op, (ast.Eq, ast.NotEq)):
            if isinstance(a, str) and isinstance(b, str):
                r = a == b
            elif isinstance(a, (str, SStr)) and isinstance(b, (str, SStr)):
                r = coerce(a).equals(b)
            else:
                raise Unsupported("== on non-strings")
            return r if isinstance(op, ast.Eq) else Not(r)
        if isinstance(op, (ast.In, ast.NotIn)):
            if not isinstance(b, tuple):
                raise Unsupported("in non-tuple")
            r = Or(*[self.compare(ast.Eq(), a, x) for x in b])
            return r if isinstance(op, ast.In) else Not(r)
        if isinstance(op, (ast.Lt, ast.LtE, ast.Gt, ast.GtE)):
            a, b = coerce(a), coerce(b)
            if isinstance(op, ast.Lt):
                return a.less(b, True)
            if isinstance(op, ast.LtE):
                return a.less(b, False)
            if isinstance(op, ast.Gt):
                return b.less(a, True)
            return b.less(a, False)
        raise Unsupported(f"comparison {type(op).__name__}")

    def call(self, e, env):
        f = e.func
        args = [self.expr(a, env) for a in e.args]
        if e.keywords:
            raise Unsupported("keyword arguments")
        if isinstance(f, ast.Name):
            if f.id in IDENTITY_CALLS and len(args) == 1 and isinstance(args[0], (str, SStr)):
                return args[0]
            target = env.get(f.id, self.globals.get(f.id))
            if callable(target) and all(isinstance(a, (str, int, bool)) for a in args):
                return target(*args)
            raise Unsupported(f"call {f.id}")
        if isinstance(f, ast.Attribute):
            recv = self.expr(f.value, env)
            m = f.attr
            if isinstance(recv, str) and all(isinstance(a, (str, tuple)) for a in args) and not any(
                isinstance(x, SStr) for a in args if isinstance(a, tuple) for x in a
            ):
                return getattr(recv, m)(*args)
            recv = coerce(recv)
            if m == "endswith" and len(args) == 1:
                opts = args[0] if isinstance(args[0], tuple) else (args[0],)
                return Or(*[recv.endswith(o) for o in opts])
            if m == "startswith" and len(args) == 1:
                opts = args[0] if isinstance(args[0], tuple) else (args[0],)
                return Or(*[recv.startswith(o) for o in opts])
            if m == "replace" and len(args) == 2:
                needle, repl = args
                if not (isinstance(needle, str) and len(needle) == 1):
                    raise Unsupported("replace with a needle that is not one constant character")
                return recv.replace_char(ord(needle), coerce(repl))
            raise Unsupported(f"method {m}")
        raise Unsupported("call form")


def run_function(fn, *args, **kw) -> list[Path]:
    return Interp(fn).run(*args, **kw)


def check(solver_assertions, timeout_ms=120000):
    """Run one query; returns (verdict, model | None, seconds)."""
    import time

    s = z3.Solver()
    s.set("timeout", timeout_ms)
    for a in solver_assertions:
        s.add(_b(a))
    t0 = time.time()
    r = s.check()
    dt = time.time() - t0
    return str(r), (s.model() if r == z3.sat else None), dt


# ---------------------------------------------------------------------------------------------
# Self-validation: push concrete inputs through the symbolic operations and through Python
# ---------------------------------------------------------------------------------------------


def pin(s: SStr, value: str):
    """Constraint: the fresh dense string s equals the concrete value."""
    cs = [s.dense_len == len(value)]
    for i, ch in enumerate(value):
        cs.append(s.cells[i][1] == ord(ch))
    return And(*cs)


def eval_bool(expr, model):
    if isinstance(expr, bool):
        return expr
    return z3.is_true(model.eval(expr, model_completion=True))


def selftest(seed=0, n=150):
    """Differential test of the domain against Python's str; returns number of cases."""
    import random

    rng = random.Random(seed)
    alphabet = "ab/%_\\.0A"
    cases = 0
    for _ in range(n):
        a = "".join(rng.choice(alphabet) for _ in range(rng.randint(0, 4)))
        b = "".join(rng.choice(alphabet) for _ in range(rng.randint(0, 4)))
        A, B = SStr.fresh("A", 4), SStr.fresh("B", 4)
        s = z3.Solver()
        s.add(_b(pin(A, a)), _b(pin(B, b)))
        assert s.check() == z3.sat
        m = s.model()
        esc = A.replace_char(ord("\\"), SStr.const("\\\\")).replace_char(ord("%"), SStr.const("\\%"))
        checks = [
            ((A + B).eval(m), a + b),
            ((A + "0").eval(m), a + "0"),
            ((A + "xy").eval(m), a + "xy"),
            (A.drop_last().eval(m), a[:-1]),
            ((A.drop_last() + "0").eval(m), a[:-1] + "0"),
            (esc.eval(m), a.replace("\\", "\\\\").replace("%", "\\%")),
            (esc.drop_last().eval(m), a.replace("\\", "\\\\").replace("%", "\\%")[:-1]),
            (eval_bool(A.startswith(B), m), a.startswith(b)),
            (eval_bool(B.startswith(A), m), b.startswith(a)),
            (eval_bool(esc.startswith(B), m), a.replace("\\", "\\\\").replace("%", "\\%").startswith(b)),
            (eval_bool(A.endswith("/"), m), a.endswith("/")),
            (eval_bool(esc.endswith("%"), m), a.replace("\\", "\\\\").replace("%", "\\%").endswith("%")),
            (eval_bool(A.equals(B), m), a == b),
            (eval_bool(A.less(B, True), m), a < b),
            (eval_bool(A.less(B, False), m), a <= b),
            (eval_bool((A + "0").less(B, True), m), a + "0" < b),
            (eval_bool(B.less(A.drop_last() + "0", True), m), b < a[:-1] + "0"),
        ]
        for got, want in checks:
            cases += 1
            if got != want:
                raise AssertionError(f"z3str selftest mismatch on a={a!r} b={b!r}: {got!r} != {want!r}")
    return cases
