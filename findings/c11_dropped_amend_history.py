#!/usr/bin/env python3
"""History (public API: Workflow + Scheduler on a temporary database) for the finding of C10/O10.3
and C11: an optional step P produces o.txt; step C announces o.txt as a dynamic input (amend), which
makes P needed; C is rerun and no longer announces o.txt (reset_for_rerun drops the dynamic edge).
Nothing needs o.txt anymore, so P's implied need must fall back to OPTIONAL (and P would be reverted
at the end of the build), but P keeps its elevated need: deleting the edge o.txt -> C flags C only,
and the recomputation walks from C to its producers along the edges that still exist.
exit 1 = the defect is present, 0 = absent."""
import asyncio
import sys

sys.path.insert(0, "/repo")
from stepup.core.enums import Need, StepState  # noqa: E402
from stepup.core.hash import StepHash  # noqa: E402
from stepup.core.scheduler import Scheduler  # noqa: E402
from stepup.core.sqlite3 import DBSession  # noqa: E402
from stepup.core.step import Step  # noqa: E402
from stepup.core.workflow import Workflow  # noqa: E402


async def main():
    with DBSession.open(":memory:") as db:
        wf = Workflow(db, dir_queue=None)
        await wf.initialize()
        sched = Scheduler(wf, db=db)
        await sched.initialize(None)
        async with db:
            wf.define_step(wf.root, "plan", need=Need.PLAN)
            plan = wf.find(Step, "plan")
        job = await sched.pop_next_job()
        assert job.step.label == "plan", job
        async with db:
            wf.define_step(plan, "P", out_paths=["o.txt"], need=Need.OPTIONAL)
            wf.define_step(plan, "C")
            plan.mark_completed(StepHash(b"x" * 32, None, b"y" * 32, None), False)
            p, c = wf.find(Step, "P"), wf.find(Step, "C")
        job = await sched.pop_next_job()
        assert job.step.label == "C", job  # P is optional and nothing needs it
        async with db:
            # the running C announces o.txt as an input: it is not built yet, so C will be deferred
            wf.amend_step(c, inp_paths=["o.txt"], ran_concurrently=lambda a, b: False)
            c.mark_completed(None, True)
        job = await sched.pop_next_job()
        assert job is not None and job.step.label == "P", job  # now P is needed
        async with db:
            need_mid = db.execute("SELECT _implied_need FROM step WHERE node = ?", (p.i,)).fetchone()[0]
            # C's script is edited: it is rerun and no longer reads o.txt
            wf.mark_step_pending(c)
            c.reset_for_rerun()
        await sched.pop_next_job()
        async with db:
            need_end = db.execute("SELECT _implied_need, _check_after FROM step WHERE node = ?", (p.i,)).fetchone()
            consumers = db.execute("SELECT count(*) FROM dependency WHERE source = (SELECT i FROM node WHERE label = 'o.txt')").fetchone()[0]
        print("P._implied_need while C consumed o.txt:", need_mid, "afterwards:", need_end, "consumers of o.txt:", consumers)
        bad = consumers == 0 and need_end[0] != Need.OPTIONAL.value and need_end[1] == 0
        print("DEFECT PRESENT: nothing consumes o.txt, yet the optional step P still counts as needed" if bad else "no defect")
        return 1 if bad else 0


sys.exit(asyncio.run(main()))
