#!/usr/bin/env python3
"""History (public API: Workflow + Scheduler on a temporary database) that exhibits the stale _safe
finding of C10/O10.2: plan.py -> A -> B built to SUCCEEDED; plan.py and B become pending; plan.py is
dispatched (A, B correctly become unsafe); plan.py reruns and re-declares A (A and B are flagged by
the full recycle); the next pop_next_job() leaves B._safe = 0 with all flags cleared and dispatches
nothing, although B is PENDING, attached, needed, ready, and its creators are SUCCEEDED/RUNNING
without holds.   exit 1 = the defect is present, 0 = absent."""
import asyncio
import sys

sys.path.insert(0, "/repo")
from stepup.core.enums import HashUpdateCause, Need, StepState  # noqa: E402
from stepup.core.hash import FileHash, StepHash  # noqa: E402
from stepup.core.scheduler import Scheduler  # noqa: E402
from stepup.core.sqlite3 import DBSession  # noqa: E402
from stepup.core.step import Step  # noqa: E402
from stepup.core.workflow import Workflow  # noqa: E402


async def main():
    with DBSession.open(":memory:") as db:
        wf = Workflow(db, dir_queue=None)
        await wf.initialize()
        sched = Scheduler(wf, db=db)
        await sched.initialize(None)
        h = StepHash(b"x" * 32, None, b"y" * 32, None)
        async with db:
            wf.declare_static_files(wf.root, ["plan.py"])
            wf.update_file_hashes({"plan.py": FileHash(b"d" * 32, 0o100755, 1.0, 1, 1)}, cause=HashUpdateCause.CONFIRMED)
            wf.define_step(wf.root, "./plan.py", inp_paths=["plan.py"], need=Need.PLAN)
            plan = wf.find(Step, "./plan.py")
            wf.define_step(plan, "A")
            a = wf.find(Step, "A")
            wf.define_step(a, "B")
            b = wf.find(Step, "B")
            for s in (plan, a, b):
                s.set_state(StepState.RUNNING)
                s.mark_completed(h, False)
        assert await sched.pop_next_job() is None  # everything SUCCEEDED, caches settle
        async with db:
            # plan.py was edited and an input of B changed
            wf.mark_step_pending(plan)
            wf.mark_step_pending(b)
            plan.delete_hash()
            b.delete_hash()
        job = await sched.pop_next_job()
        assert job is not None and job.step.label == "./plan.py", job
        async with db:
            rows = dict(db.execute("SELECT node.label, _safe FROM step JOIN node ON node.i = step.node").fetchall())
        assert rows["A"] == 0 and rows["B"] == 0, rows  # correct: their creator chain is RUNNING... plan is RUNNING => safe
        async with db:
            plan.reset_for_rerun()
            wf.define_step(plan, "A")  # the rerun of plan.py declares A again: full recycle
        job = await sched.pop_next_job()
        async with db:
            rows = db.execute("SELECT node.label, step.state, _safe, _check_safe, deferred, _ready, _implied_need, node.detached FROM step JOIN node ON node.i = step.node ORDER BY node.i").fetchall()
        for r in rows:
            print(r)
        print("job dispatched:", job)
        bad = job is None and any(r[0] == "B" and r[1] == StepState.PENDING.value and r[2] == 0 and r[3] == 0 for r in rows)
        print("DEFECT PRESENT: B is eligible by definition but its cached _safe is 0 and nothing is dispatched" if bad else "no defect")
        return 1 if bad else 0


sys.exit(asyncio.run(main()))
