"""CrossHair conditions for C03 (and the skip clauses of C01/C04): the decision logic of
Executor.execute_job / try_skip_job / _classify_execution and the freshness bookkeeping of
Scheduler.record_run_started / record_run_stopped / ran_concurrently, all with stubs for the
environment (hash computation, command execution, reporter, database)."""

from __future__ import annotations

import stepup.core.executor  # noqa: F401  (imported before CrossHair starts tracing)
import stepup.core.scheduler  # noqa: F401


def _drive(coro):
    try:
        coro.send(None)
    except StopIteration as stop:
        return stop.value
    raise RuntimeError("suspended")


class _DB:
    async def __aenter__(self):
        return None

    async def __aexit__(self, *a):
        return False


class _Sched:
    def __init__(self):
        self.draining = False
        self.log = []

    def record_run_started(self, i):
        self.log.append(("started", i))

    def record_run_stopped(self, i, *, succeeded):
        self.log.append(("stopped", i, succeeded))


class _WF:
    def __init__(self):
        self.updates = []

    def update_file_hashes(self, hashes, *, cause):
        self.updates.append((dict(hashes), cause))


class _Step:
    i = 7
    label = "s"

    def __init__(self):
        self.log = []

    def reset_for_rerun(self):
        self.log.append("reset_for_rerun")

    def delete_hash(self):
        self.log.append("delete_hash")

    def set_state(self, state):
        self.log.append(("set_state", state))

    def mark_completed(self, new_hash, wants_defer):
        self.log.append(("mark_completed", new_hash, wants_defer))
        return False

    def set_outcome(self, outcome):
        self.log.append("set_outcome")


class _Run:
    def __init__(self, step, nunavail, nunfresh, success):
        self.step = step
        self.unavailable = {f"u{k}" for k in range(nunavail)}
        self.unfresh = {f"f{k}" for k in range(nunfresh)}
        self.success = success
        self.outcome = "outcome"
        self.interrupted_defer = False
        self.inp_digest = b""


class _Hash:
    def __init__(self, inp, out):
        self.inp_digest = inp
        self.out_digest = out


def _executor(keep_going, plan):
    """An Executor whose environment-facing coroutines follow `plan`."""
    from stepup.core.executor import Executor

    class E(Executor):
        __slots__ = ("__dict__",)

        async def _new_run(self, job_i, step, inp_hashes, env_deps):
            self.calls.append("_new_run")
            return plan["run"], plan["inp_hash"]

        async def _run_command(self, run):
            self.calls.append("_run_command")

        async def _compute_full_step_hash(self, run):
            self.calls.append("_compute_full_step_hash")
            return plan["full_hash"], plan["new_inp_hashes"], {"o": "oh"}

        async def _compute_out_step_hash(self, run, new_hash):
            self.calls.append("_compute_out_step_hash")
            return plan["out_hash"], {"o": "oh"}

        async def _report_run(self, run):
            self.calls.append("_report_run")

        def _report_step_counts(self):
            pass

        async def _skip(self, run, step_hash):
            self.calls.append("_skip")

        async def _noskip(self, run, old, new):
            self.calls.append("_noskip")

        async def _finalize_failed_run(self, run):
            self.calls.append("_finalize_failed_run")

        async def reporter_call(self, *a):
            pass

    ex = object.__new__(E)
    ex.__dict__["calls"] = []
    for name, val in (("db", _DB()), ("scheduler", _Sched()), ("workflow", _WF()), ("keep_going", keep_going)):
        object.__setattr__(ex, name, val)

    async def reporter(*a):
        return None

    object.__setattr__(ex, "reporter", reporter)
    return ex


def execute_classification(nunavail: int, nunfresh: int, nchanged: int, success: bool, keep_going: bool) -> bool:
    """execute_job: the step is recorded SUCCEEDED (mark_completed gets the hash) iff no re-hashed
    input differs, nothing is unavailable/unfresh and the command succeeded; a changed input makes
    the step fail (not defer) AND drains the scheduler, whatever keep_going says; an
    unavailable/unfresh input defers instead of succeeding."""
    from stepup.core.enums import HashUpdateCause

    step = _Step()
    run = _Run(step, nunavail, nunfresh, success)
    full = _Hash(b"i", b"o")
    changed = {f"c{k}": "h" for k in range(nchanged)}
    ex = _executor(keep_going, {"run": run, "inp_hash": _Hash(b"i", None), "full_hash": full, "new_inp_hashes": changed})
    _drive(ex.execute_job(1, step, {}, []))
    mc = [e for e in step.log if isinstance(e, tuple) and e[0] == "mark_completed"]
    if len(mc) != 1:
        return False
    _, recorded_hash, wants_defer = mc[0]
    want_success = nchanged == 0 and nunavail == 0 and nunfresh == 0 and success
    if (recorded_hash is full) != want_success or (recorded_hash is not None and recorded_hash is not full):
        return False
    if nchanged > 0:
        ok = ex.scheduler.draining and wants_defer is False and recorded_hash is None
        ok = ok and (changed, HashUpdateCause.FAILED) in ex.workflow.updates
    else:
        ok = (not ex.scheduler.draining) and wants_defer == (nunavail + nunfresh > 0)
    stopped = [e for e in ex.scheduler.log if e[0] == "stopped"]
    ok = ok and stopped == [("stopped", step.i, want_success)]
    ok = ok and ex.scheduler.log[0] == ("started", step.i)
    # output hashes are recorded with the right cause
    out_updates = [u for u in ex.workflow.updates if u[0] == {"o": "oh"}]
    ok = ok and len(out_updates) == 1 and out_updates[0][1] == (HashUpdateCause.SUCCEEDED if run.success else HashUpdateCause.FAILED)
    return ok


def skip_soundness(inp_same: bool, out_same: bool, inp_ok: bool, out_ok: bool) -> bool:
    """try_skip_job: the stored result is reused (_skip + mark_completed(new_hash)) only if both the
    input digest and the output digest equal the stored ones; on any mismatch the step is reset to
    PENDING with its hash deleted; no command is ever run on this path."""
    from stepup.core.enums import StepState

    step = _Step()
    run = _Run(step, 0, 0, True)
    stored = _Hash(b"i", b"o")
    new_inp = _Hash(b"i" if inp_same else b"j", None) if inp_ok else None
    new_out = _Hash(new_inp.inp_digest if new_inp else b"", b"o" if out_same else b"p") if out_ok else None
    ex = _executor(False, {"run": run, "inp_hash": new_inp, "out_hash": new_out})
    _drive(ex.try_skip_job(1, step, {}, [], stored))
    if "_run_command" in ex.calls:
        return False
    mc = [e for e in step.log if isinstance(e, tuple) and e[0] == "mark_completed"]
    reset = "delete_hash" in step.log and ("set_state", StepState.PENDING) in step.log and "reset_for_rerun" in step.log
    if not inp_ok:
        return not mc and not reset and "_skip" not in ex.calls
    if not inp_same:
        return reset and not mc and "_skip" not in ex.calls and "_compute_out_step_hash" not in ex.calls
    if not out_ok:
        return not mc and not reset and "_skip" not in ex.calls and "_finalize_failed_run" in ex.calls
    if not out_same:
        return reset and not mc and "_skip" not in ex.calls and ex.workflow.updates == []
    return "_skip" in ex.calls and mc == [("mark_completed", new_out, False)] and not reset


def classify_only(nunavail: int, nunfresh: int, nchanged: int, success: bool) -> bool:
    """_classify_execution in isolation (the function named in the property's anchors)."""
    step = _Step()
    run = _Run(step, nunavail, nunfresh, success)
    full = _Hash(b"i", b"o")
    changed = {f"c{k}": "h" for k in range(nchanged)}
    ex = _executor(False, {})
    new_hash, wants_defer = ex._classify_execution(run, full, changed, nchanged > 0)
    want_success = nchanged == 0 and nunavail == 0 and nunfresh == 0 and success
    if (new_hash is full) != want_success:
        return False
    if nchanged > 0:
        return wants_defer is False and run.success is False and not run.unavailable and not run.unfresh
    return wants_defer == (nunavail + nunfresh > 0)


N = 4


def freshness_step(r0: bool, r1: bool, r2: bool, r3: bool, s0: int, s1: int, s2: int, s3: int,
                   k0: bool, k1: bool, k2: bool, k3: bool, t0: int, t1: int, t2: int, t3: int,
                   now: int, ev_step: int, ev_kind: int) -> bool:
    """One event from an arbitrary valid bookkeeping state (inductive step).

    State per step i: running r_i with start time s_i; ghost: k_i = 'has completed successfully at
    time t_i'.  Invariant INV: for every running consumer C and every producer P that succeeded at
    an instant t_P > start(C), stop_times[P] == t_P is still recorded (so ran_concurrently(P, C)
    is true).  From any state satisfying INV, after start / successful stop / failed stop of any
    step at an instant `now` not before every recorded instant, INV holds again."""
    import stepup.core.scheduler as sch

    running = [r0, r1, r2, r3]
    start = [s0, s1, s2, s3]
    done = [k0, k1, k2, k3]
    tstop = [t0, t1, t2, t3]
    s = object.__new__(sch.Scheduler)
    st = {}
    sp = {}
    for i in range(N):
        if running[i]:
            st[i] = start[i]
    # the recorded stop times: a producer's stop time is recorded iff some running consumer
    # still needs it (minimal state allowed by INV) or arbitrarily otherwise -- take the minimal
    # one plus the conservative choice "recorded whenever it is not older than the oldest start"
    oldest = None
    for i in range(N):
        if running[i] and (oldest is None or start[i] < oldest):
            oldest = start[i]
    for i in range(N):
        if done[i] and oldest is not None and tstop[i] >= oldest:
            sp[i] = tstop[i]
    object.__setattr__(s, "start_times", st)
    object.__setattr__(s, "stop_times", sp)
    object.__setattr__(s, "run_counter", 0)
    saved = sch.time
    clock = type("T", (), {"monotonic_ns": staticmethod(lambda: now)})
    sch.time = clock
    try:
        if ev_kind == 0:
            if running[ev_step]:
                return True  # a running step is not started again
            s.record_run_started(ev_step)
            running[ev_step] = True
            start[ev_step] = now
        else:
            if not running[ev_step]:
                return True  # only a running step stops
            ok = ev_kind == 1
            s.record_run_stopped(ev_step, succeeded=ok)
            running[ev_step] = False
            if ok:
                done[ev_step] = True
                tstop[ev_step] = now
        for c in range(N):
            if not running[c]:
                continue
            for p in range(N):
                if p != c and done[p] and tstop[p] > start[c]:
                    if not s.ran_concurrently(p, c):
                        return False
        return True
    finally:
        sch.time = saved


def ran_concurrently_def(a: int, b: int, ta: int, tb: int, has_stop: bool, has_start: bool) -> bool:
    """ran_concurrently(p, c) is true iff p's completion and c's start are both recorded and
    start(c) <= stop(p) (a tie counts as overlapping)."""
    import stepup.core.scheduler as sch

    s = object.__new__(sch.Scheduler)
    object.__setattr__(s, "stop_times", {a: ta} if has_stop else {})
    object.__setattr__(s, "start_times", {b: tb} if has_start else {})
    return s.ran_concurrently(a, b) == (has_stop and has_start and tb <= ta)
