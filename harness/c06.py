"""CrossHair conditions for C06/C07 (cleaning): File.before_delete, revert_optional_steps' queue,
remove_deletable_files/_prune_empty_dirs, Builder.finalize's guards, the loop of clean.clean.
The file system, the database, the reporter and the console are stubs with arbitrary answers."""

from __future__ import annotations

import stepup.core.builder  # noqa: F401  (imported before CrossHair starts tracing)
import stepup.core.clean  # noqa: F401
import stepup.core.file  # noqa: F401
import stepup.core.finalize  # noqa: F401


def _drive(coro):
    try:
        coro.send(None)
    except StopIteration as stop:
        return stop.value
    raise RuntimeError("suspended")


def _pick(items, i):
    for k in range(len(items)):
        if i == k:
            return items[k]
    raise IndexError(i)


async def _reporter(*a, **k):
    return None


class _Cur:
    def __init__(self, rows, rowcount=0):
        self.rows = rows
        self.rowcount = rowcount

    def fetchone(self):
        return self.rows[0] if self.rows else None

    def __iter__(self):
        return iter(self.rows)


def _warm_up():
    """Everything that caches on first use is exercised at import time, before CrossHair traces:
    cattrs generates its (un)structure functions lazily, Flag caches composite members."""
    from stepup.core.enums import ReturnCode
    from stepup.core.hash import FileHash

    h = FileHash(b"\x05" * 32, 0o100644, 1.0, 3, 9).to_json()
    FileHash.from_json(h)
    FileHash.from_json(None)
    for v in range(64):
        ReturnCode(v)
    return h


HJSON = _warm_up()


def _hash_json():
    return HJSON


class _StubHash:
    """Stands for FileHash in the code under test: the JSON round trip (cattrs + C json) is
    environment here; a stored value decodes to a token that remembers it."""

    def __init__(self, token):
        self.token = token
        self.is_unknown = token is None

    @classmethod
    def from_json(cls, value):
        return cls(value)

    def __eq__(self, other):
        return isinstance(other, _StubHash) and other.token == self.token

    def __hash__(self):
        return 0


def before_delete_contract(state_i: int, known: bool) -> bool:
    """File.before_delete queues a path only in state VOLATILE (without hash) or BUILT/OUTDATED
    (with its recorded hash, and only when that hash is known); never for UNDECLARED, UNCONFIRMED,
    MISSING, CONFIRMED or PLANNED files; the parent directory is always marked."""
    from stepup.core.enums import FileState
    from stepup.core.file import File
    from stepup.core.hash import FileHash

    states = list(FileState)
    state = _pick(states, state_i)

    class G:
        def __init__(self):
            self.to_be_deleted = {}
            self.dirs = []
            self.db = self

        def execute(self, sql, args=()):
            if "SELECT state" in sql:
                return _Cur([(state.value,)])
            if "SELECT hash" in sql:
                return _Cur([(_hash_json() if known else None,)])
            raise AssertionError(sql)

        def mark_dir_to_be_deleted(self, p):
            self.dirs.append(str(p))

    import stepup.core.file as fmod

    g = G()
    f = File(g, 3, "d/f.txt")
    saved = fmod.FileHash
    fmod.FileHash = _StubHash
    try:
        f.before_delete()
    finally:
        fmod.FileHash = saved
    q = g.to_be_deleted
    if g.dirs != ["d"]:
        return False
    if state == FileState.VOLATILE:
        return q == {"d/f.txt": None}
    if state in (FileState.BUILT, FileState.OUTDATED) and known:
        return list(q) == ["d/f.txt"] and q["d/f.txt"] == _StubHash(_hash_json())
    return q == {}


def revert_queue_contract(s0: int, s1: int, n: int) -> bool:
    """revert_optional_steps queues regular outputs (BUILT, OUTDATED) WITH their recorded hash, so
    that a file the user modified is not removed, and volatile outputs without one."""
    import stepup.core.finalize as fin
    from stepup.core.enums import FileState
    from stepup.core.hash import FileHash

    sts = [FileState.VOLATILE, FileState.BUILT, FileState.OUTDATED]
    rows = [("a/x", _pick(sts, s0).value, _hash_json()), ("b/y", _pick(sts, s1).value, _hash_json())][:n]
    rows = [(p, s, None if s == FileState.VOLATILE.value else h) for p, s, h in rows]

    class DB:
        def __init__(self):
            self.log = []

        async def __aenter__(self):
            return None

        async def __aexit__(self, *a):
            return False

        def execute(self, sql, args=()):
            self.log.append(sql)
            if sql == fin.SELECT_OPTIONAL_TO_BE_DELETED:
                return _Cur(rows)
            return _Cur([], rowcount=1)

    class WF:
        def __init__(self):
            self.db = DB()
            self.to_be_deleted = {}
            self.dirs = []

        def mark_dir_to_be_deleted(self, p):
            self.dirs.append(str(p))

    wf = WF()
    saved = fin.FileHash
    fin.FileHash = _StubHash
    try:
        _drive(fin.revert_optional_steps(wf, _reporter))
    finally:
        fin.FileHash = saved
    if set(wf.to_be_deleted) != {r[0] for r in rows}:
        return False
    for p, s, h in rows:
        got = wf.to_be_deleted[p]
        if s == FileState.VOLATILE.value:
            if got is not None:
                return False
        elif got is None or got != _StubHash(h):
            return False
    return (fin.UPDATE_OPTIONAL_TO_BE_DELETED in wf.db.log) == (len(rows) > 0)


class _FakeHash:
    """outcome of re-hashing: 0 nothing changed (same object), 1 content differs, 2 cannot be
    hashed, 3 content identical but stat fields changed (an EQUAL hash in a NEW object, which is
    what FileHash.refreshed returns after a copy / touch / restore)."""

    def __init__(self, outcome, ident):
        self.outcome = outcome
        self.ident = ident

    def __eq__(self, other):
        return isinstance(other, _FakeHash) and other.ident == self.ident

    def __ne__(self, other):
        return not self.__eq__(other)

    def __hash__(self):
        return self.ident

    def refreshed(self, path):
        from stepup.core.exceptions import HashError

        if self.outcome == 2:
            raise HashError("dir")
        if self.outcome == 3:
            return _FakeHash(0, ident=self.ident)
        return self if self.outcome == 0 else _FakeHash(0, -self.ident)


def remove_contract(k0: int, k1: int, nfiles: int, d_isdir: bool, d_empty: bool, p_isdir: bool, p_empty: bool, rm_fails: bool) -> bool:
    """remove_deletable_files removes a queued file only if its entry is None (volatile) or its
    re-hash equals the recorded hash, never when it cannot be hashed; a directory is removed only
    when the file system reports it as an empty directory; the walk upward stops at the root."""
    import stepup.core.finalize as fin

    log = []
    answers = {"d/e": (d_isdir, d_empty), "d": (p_isdir, p_empty)}

    class FP(str):
        def remove(self):
            log.append(("remove", str(self)))
            if rm_fails:
                raise OSError("x")

        def rmdir(self):
            log.append(("rmdir", str(self)))

        def is_dir(self):
            return answers.get(str(self), (False, False))[0]

        def iterdir(self):
            return [] if answers.get(str(self), (False, False))[1] else ["x"]

        def normpath(self):
            s = str(self)
            return FP(s[:-1] if s.endswith("/") and len(s) > 1 else s)

        @property
        def parent(self):
            s = str(self)
            return FP(s.rsplit("/", 1)[0] if "/" in s else "")

        @property
        def name(self):
            return str(self).rsplit("/", 1)[-1]

    kinds = [None, _FakeHash(0, 101), _FakeHash(1, 102), _FakeHash(2, 103), _FakeHash(3, 104)]
    entries = [("d/e/f1", _pick(kinds, k0)), ("d/e/f2", _pick(kinds, k1))][:nfiles]

    class WF:
        to_be_deleted = dict(entries)

    wf = WF()
    wf.to_be_deleted = dict(entries)
    wf.to_be_deleted["d/e/"] = None
    saved = fin.Path
    fin.Path = FP
    try:
        _drive(fin.remove_deletable_files(wf, _reporter))
    finally:
        fin.Path = saved
    removed = {p for op, p in log if op == "remove"}
    for p, h in entries:
        may = h is None or h.outcome in (0, 3)
        if (p in removed) != may:
            return False
    rmdirs = [p for op, p in log if op == "rmdir"]
    want = []
    if d_isdir and d_empty:
        want.append("d/e")
        if p_isdir and p_empty:
            want.append("d")
    return rmdirs == want and wf.to_be_deleted == {}


def finalize_guard(ntargets: int, ndirs: int, rc: int, do_remove: bool) -> bool:
    """Builder.finalize runs the cleanup pass (revert optional steps, delete detached nodes, remove
    files) iff the build was unrestricted, complete (no bit other than WARNING) and cleaning is on."""
    import stepup.core.builder as bld
    from stepup.core.enums import ReturnCode

    log = []

    async def fake_report_unbuilt(wf, sched, rep):
        return ReturnCode(rc)

    async def fake_revert(wf, rep):
        log.append("revert")

    async def fake_remove(wf, rep):
        log.append("remove")

    class WF:
        targets = frozenset(f"t{k}" for k in range(ntargets))
        target_dirs = frozenset(f"d{k}/" for k in range(ndirs))

        def delete_detached(self):
            log.append("delete_detached")

    class Sched:
        run_counter = 0

        async def build_completed(self):
            log.append("build_completed")

    class DB:
        async def __aenter__(self):
            return None

        async def __aexit__(self, *a):
            return False

    class Rep:
        async def __call__(self, *a, **k):
            return None

        async def warn_about_logs(self):
            return None

    class B(bld.Builder):
        __slots__ = ("__dict__",)

        async def _report_counts(self):
            return None

    b = object.__new__(B)
    for name, val in (("workflow", WF()), ("scheduler", Sched()), ("db", DB()), ("reporter", Rep()), ("do_remove_outdated", do_remove), ("returncode", ReturnCode(0))):
        object.__setattr__(b, name, val)
    saved = (bld.report_unbuilt, bld.revert_optional_steps, bld.remove_deletable_files)
    bld.report_unbuilt, bld.revert_optional_steps, bld.remove_deletable_files = fake_report_unbuilt, fake_revert, fake_remove
    try:
        _drive(b.finalize())
    finally:
        bld.report_unbuilt, bld.revert_optional_steps, bld.remove_deletable_files = saved
    want = ntargets == 0 and ndirs == 0 and (rc & ~ReturnCode.WARNING.value) == 0 and do_remove
    cleanup = [x for x in log if x != "build_completed"]
    if want:
        return cleanup == ["revert", "delete_detached", "remove"] and b.returncode == ReturnCode(rc)
    return cleanup == [] and b.returncode == ReturnCode(rc)


def clean_loop(state_i: int, detached: bool, exists: bool, differs: bool, safe: bool, commit: bool, dir_empty: bool) -> bool:
    """The removal loop of `stepup clean`: nothing is removed without --commit; in safe mode a
    non-volatile output whose content differs from the recorded hash is skipped; a volatile output
    is removed whatever its content; a parent directory is removed only when empty."""
    import types

    import stepup.core.clean as cl
    from stepup.core.enums import FileState

    state = _pick([FileState.BUILT, FileState.OUTDATED, FileState.VOLATILE], state_i)
    log = []
    present = {"d/f": exists}

    class FP(str):
        def exists(self):
            return present.get(str(self), False)

        def remove_p(self):
            log.append(("remove", str(self)))
            present[str(self)] = False

        def rmdir(self):
            log.append(("rmdir", str(self)))

        def is_dir(self):
            return str(self) == "d"

        def iterdir(self):
            return [] if dir_empty else ["other"]

        @property
        def parent(self):
            s = str(self)
            return FP(s.rsplit("/", 1)[0] if "/" in s else ".")

    class H:
        def refreshed(self, path):
            return H() if differs else self

    old = H()
    saved = (cl.search_matching_paths, cl.search_consuming_paths, cl.translate_back, cl.Console)
    cl.search_matching_paths = lambda con, paths: set(paths)
    cl.search_consuming_paths = lambda con, paths, detached_only: [(FP("d/f"), state, detached, old)]
    cl.translate_back = lambda p: FP(p)

    class Con:
        def __init__(self, **k):
            pass

        def print(self, *a, **k):
            pass

    cl.Console = Con
    try:
        args = types.SimpleNamespace(all=True, safe=safe, commit=commit)
        cl.clean(None, {"d"}, args)
    finally:
        cl.search_matching_paths, cl.search_consuming_paths, cl.translate_back, cl.Console = saved
    changed = state != FileState.VOLATILE and differs
    should_remove = commit and exists and not (safe and changed)
    removed = ("remove", "d/f") in log
    if removed != should_remove:
        return False
    rmdir = ("rmdir", "d") in log
    return rmdir == (should_remove and dir_empty)
