"""CrossHair conditions for C14 (watch mode): Watcher.record_change event folding and
Workflow.relevant_paths_under's recorded-glob-match arm, with the workflow / database as stubs."""

from __future__ import annotations

import stepup.core.enums  # noqa: F401  (imported before CrossHair starts tracing)
import stepup.core.nglob  # noqa: F401
import stepup.core.watcher  # noqa: F401
import stepup.core.workflow  # noqa: F401


def _drive(coro):
    try:
        coro.send(None)
    except StopIteration as stop:
        return stop.value
    raise RuntimeError("suspended")


def _pick(items, i):
    for k in range(len(items)):
        if i == k:
            return items[k]
    raise IndexError(i)


class _Event:
    def __init__(self):
        self.flag = False

    def set(self):
        self.flag = True


PATHS = ["d/a", "d/b"]


def fold_events(k0: int, p0: int, k1: int, p1: int, k2: int, p2: int, k3: int, p3: int, n: int, rel_a: bool, rel_b: bool) -> bool:
    """Folding a sequence of file-system events: `updated` and `deleted` stay disjoint; a relevant
    path ends in `deleted` iff its last relevant event deleted it (directly or through its parent
    directory) and in `updated` iff its last one updated it; irrelevant paths are never recorded."""
    from stepup.core.enums import Change
    from stepup.core.watcher import Watcher

    relevant = {"d/a": rel_a, "d/b": rel_b}

    class WF:
        def change_is_relevant(self, path, *, during_build=False):
            return relevant[path]

        def relevant_paths_under(self, directory, *, during_build=False):
            return [p for p in PATHS if relevant[p]]

    async def reporter(*a):
        return None

    w = object.__new__(Watcher)
    ev = _Event()
    for name, val in (("workflow", WF()), ("reporter", reporter), ("deleted", set()), ("updated", set()), ("files_changed_events", [ev])):
        object.__setattr__(w, name, val)
    kinds = [Change.UPDATED, Change.DELETED, Change.DELETED_PARENT]
    events = [(k0, p0), (k1, p1), (k2, p2), (k3, p3)][:n]
    last = {}
    for k, p in events:
        kind = _pick(kinds, k)
        path = "d" if kind == Change.DELETED_PARENT else _pick(PATHS, p)
        _drive(w.record_change(kind, path))
        if kind == Change.DELETED_PARENT:
            for q in PATHS:
                if relevant[q]:
                    last[q] = "deleted"
        elif relevant[path]:
            last[path] = "deleted" if kind == Change.DELETED else "updated"
    if w.updated & w.deleted:
        return False
    for q in PATHS:
        if (q in w.deleted) != (last.get(q) == "deleted") or (q in w.updated) != (last.get(q) == "updated"):
            return False
    return ev.flag == (len(last) > 0)


DIRS = ["data/sub", "data/sub/", "data", "other", "data/su", "data/sub/deep"]
PATTERNS = ["data/**/*.txt", "data/*/*.txt", "*.txt", "data/sub/*.txt", "other/*.txt", "data/${*d}/deep/${*f}.txt"]
FILES = ["data/sub/x.txt", "data/sub/deep/y.txt", "data/subx/z.txt", "other/o.txt", "top.txt", "data/w.txt"]


def _globs():
    from stepup.core.nglob import NamedGlob

    out = []
    for pat in PATTERNS:
        ng = NamedGlob(pat)
        ng.extend(FILES)
        out.append(ng)
    return out


GLOBS = None


def relevant_under(di: int, g0: int, g1: int, nglobs: int, during_build: bool = False) -> bool:
    """When a directory disappears, every recorded glob match beneath it (and nothing else) is
    reported, whatever the pattern's own literal prefix is, and also when the removal is observed
    while a build is running (a pattern may not match a build product, so its matches always count)."""
    import stepup.core.workflow as wfm

    global GLOBS
    if GLOBS is None:
        GLOBS = _globs()
    directory = _pick(DIRS, di)
    regs = [_pick(GLOBS, g0), _pick(GLOBS, g1)][:nglobs]

    class DB:
        def execute(self, sql, args=()):
            return iter(())

    fake = type("W", (), {})()
    fake.db = DB()
    fake.nglob_registrations = lambda: [(k, ng, None) for k, ng in enumerate(regs)]
    got = sorted(str(p) for p in wfm.Workflow.relevant_paths_under(fake, directory, during_build=during_build))
    d = directory if directory.endswith("/") else directory + "/"
    want = sorted({str(f) for ng in regs for f in ng.files() if str(f).startswith(d)})
    return got == want


CHAIN = ["a", "a/b", "a/b/c", "a/b/c/d"]


def pending_dirs(n: int, e: int, w0: int, w1: int, w2: int, w3: int, wroot: int) -> bool:
    """A directory handed to the inotify wrapper that does not exist yet, with `e` of its `n` levels
    present and any earlier bookkeeping (`w*`: 0 unknown, 1 recorded without watch, 2 watched): after
    `dir_loop` every missing level is recorded and the nearest existing ancestor is watched; when
    the missing levels then appear (`mkdir -p`, one CREATE event for the first of them), `change_loop`
    leaves the requested directory watched and reports the file found in it."""
    import stepup.core.watcher as w
    from asyncinotify import Mask
    from path import Path as RealPath

    want = _pick(CHAIN, n - 1)
    fs = {"depth": e}

    def depth(p):
        s = str(p)
        return 0 if s in ("", ".") else s.count("/") + 1

    class FPath(RealPath):
        def is_dir(self):
            s = str(self)
            return s in ("", ".") or (s in CHAIN and depth(s) <= fs["depth"])

        def is_file(self):
            return str(self) == want + "/f.txt" and fs["depth"] >= n

        def iterdir(self):
            s = str(self)
            if s == want:
                return [FPath(want + "/f.txt")]
            return [FPath(CHAIN[depth(s)])]

    class FakeInotify:
        def __init__(self):
            self.added = []

        def add_watch(self, path, mask):
            if not FPath(path).is_dir():
                raise FileNotFoundError(path)
            self.added.append(str(path))
            return ("watch", str(path))

        def rm_watch(self, watch):
            pass

        def get(self):
            raise RuntimeError("not used")

    class Q:
        def __init__(self):
            self.items = []

        def put_nowait(self, item):
            self.items.append(item)

        def get(self):
            raise RuntimeError("not used")

    def once(item):
        async def gen(get_next, stop_event):
            yield item

        return gen

    wrapper = object.__new__(w.AsyncInotifyWrapper)
    watches = {}
    for code, key in ((w0, "a"), (w1, "a/b"), (w2, "a/b/c"), (w3, "a/b/c/d"), (wroot, ".")):
        if code == 1:
            watches[FPath(key)] = None
        elif code == 2:
            watches[FPath(key)] = ("watch", key)
    q = Q()
    for name, val in (("watches", watches), ("inotify", FakeInotify()), ("change_queue", q), ("dir_queue", Q()), ("stop_event", None)):
        object.__setattr__(wrapper, name, val)
    saved = (w.Path, w.iter_until_stopped)
    try:
        w.Path = FPath
        w.iter_until_stopped = once(want)
        _drive(wrapper.dir_loop())
        for k in range(e, n):
            if CHAIN[k] not in wrapper.watches:
                return False
        near = "." if e == 0 else CHAIN[e - 1]
        if wrapper.watches.get(near) is None:
            return False
        if e < n:
            fs["depth"] = 4
            ev = type("Ev", (), {"path": FPath(CHAIN[e]), "mask": Mask.CREATE | Mask.ISDIR})()
            w.iter_until_stopped = once(ev)
            _drive(wrapper.change_loop())
            if wrapper.watches.get(want) is None:
                return False
            if not any(str(p) == want + "/f.txt" for _, p in q.items):
                return False
        return True
    finally:
        w.Path, w.iter_until_stopped = saved
