"""CrossHair conditions for C14 (watch mode): Watcher.record_change event folding and
Workflow.relevant_paths_under's recorded-glob-match arm, with the workflow / database as stubs."""

from __future__ import annotations

import stepup.core.enums  # noqa: F401  (imported before CrossHair starts tracing)
import stepup.core.nglob  # noqa: F401
import stepup.core.watcher  # noqa: F401
import stepup.core.workflow  # noqa: F401


def _drive(coro):
    try:
        coro.send(None)
    except StopIteration as stop:
        return stop.value
    raise RuntimeError("suspended")


def _pick(items, i):
    for k in range(len(items)):
        if i == k:
            return items[k]
    raise IndexError(i)


class _Event:
    def __init__(self):
        self.flag = False

    def set(self):
        self.flag = True


PATHS = ["d/a", "d/b"]


def fold_events(k0: int, p0: int, k1: int, p1: int, k2: int, p2: int, k3: int, p3: int, n: int, rel_a: bool, rel_b: bool) -> bool:
    """Folding a sequence of file-system events: `updated` and `deleted` stay disjoint; a relevant
    path ends in `deleted` iff its last relevant event deleted it (directly or through its parent
    directory) and in `updated` iff its last one updated it; irrelevant paths are never recorded."""
    from stepup.core.enums import Change
    from stepup.core.watcher import Watcher

    relevant = {"d/a": rel_a, "d/b": rel_b}

    class WF:
        def change_is_relevant(self, path, *, during_build=False):
            return relevant[path]

        def relevant_paths_under(self, directory, *, during_build=False):
            return [p for p in PATHS if relevant[p]]

    async def reporter(*a):
        return None

    w = object.__new__(Watcher)
    ev = _Event()
    for name, val in (("workflow", WF()), ("reporter", reporter), ("deleted", set()), ("updated", set()), ("files_changed_events", [ev])):
        object.__setattr__(w, name, val)
    kinds = [Change.UPDATED, Change.DELETED, Change.DELETED_PARENT]
    events = [(k0, p0), (k1, p1), (k2, p2), (k3, p3)][:n]
    last = {}
    for k, p in events:
        kind = _pick(kinds, k)
        path = "d" if kind == Change.DELETED_PARENT else _pick(PATHS, p)
        _drive(w.record_change(kind, path))
        if kind == Change.DELETED_PARENT:
            for q in PATHS:
                if relevant[q]:
                    last[q] = "deleted"
        elif relevant[path]:
            last[path] = "deleted" if kind == Change.DELETED else "updated"
    if w.updated & w.deleted:
        return False
    for q in PATHS:
        if (q in w.deleted) != (last.get(q) == "deleted") or (q in w.updated) != (last.get(q) == "updated"):
            return False
    return ev.flag == (len(last) > 0)


DIRS = ["data/sub", "data/sub/", "data", "other", "data/su", "data/sub/deep"]
PATTERNS = ["data/**/*.txt", "data/*/*.txt", "*.txt", "data/sub/*.txt", "other/*.txt", "data/${*d}/deep/${*f}.txt"]
FILES = ["data/sub/x.txt", "data/sub/deep/y.txt", "data/subx/z.txt", "other/o.txt", "top.txt", "data/w.txt"]


def _globs():
    from stepup.core.nglob import NamedGlob

    out = []
    for pat in PATTERNS:
        ng = NamedGlob(pat)
        ng.extend(FILES)
        out.append(ng)
    return out


GLOBS = None


def relevant_under(di: int, g0: int, g1: int, nglobs: int, during_build: bool = False) -> bool:
    """When a directory disappears, every recorded glob match beneath it (and nothing else) is
    reported, whatever the pattern's own literal prefix is, and also when the removal is observed
    while a build is running (a pattern may not match a build product, so its matches always count)."""
    import stepup.core.workflow as wfm

    global GLOBS
    if GLOBS is None:
        GLOBS = _globs()
    directory = _pick(DIRS, di)
    regs = [_pick(GLOBS, g0), _pick(GLOBS, g1)][:nglobs]

    class DB:
        def execute(self, sql, args=()):
            return iter(())

    fake = type("W", (), {})()
    fake.db = DB()
    fake.nglob_registrations = lambda: [(k, ng, None) for k, ng in enumerate(regs)]
    got = sorted(str(p) for p in wfm.Workflow.relevant_paths_under(fake, directory, during_build=during_build))
    d = directory if directory.endswith("/") else directory + "/"
    want = sorted({str(f) for ng in regs for f in ng.files() if str(f).startswith(d)})
    return got == want
