"""CrossHair conditions for C01 / C04 (startup rescans and the environment recorded in a step hash)."""

from __future__ import annotations

import stepup.core.executor  # noqa: F401  (imported before CrossHair starts tracing)
import stepup.core.startup  # noqa: F401


def _drive(coro):
    try:
        coro.send(None)
    except StopIteration as stop:
        return stop.value
    raise RuntimeError("suspended")


def _pick(items, i):
    for k in range(len(items)):
        if i == k:
            return items[k]
    raise IndexError(i)


class _DB:
    def __init__(self, rows):
        self.rows = rows

    async def __aenter__(self):
        return None

    async def __aexit__(self, *a):
        return False

    def execute(self, sql, args=()):
        rows = self.rows

        class Cur:
            def fetchall(self):
                return list(rows)

            def __iter__(self):
                return iter(rows)

        return Cur()


VALUES = [None, "x", "y"]
NAMES = ["A", "B"]


def rescan_env_vars_exact(n0: int, o0: int, n1: int, o1: int, va: int, vb: int, nrows: int) -> bool:
    """After a restart every attached step that recorded a value for a tracked environment variable
    which differs from the current value is marked pending, and no other step is (several steps may
    track the same variable; one step may track several)."""
    import stepup.core.startup as su

    names = [_pick(NAMES, n0), _pick(NAMES, n1), "B"]
    olds = [_pick(VALUES, o0), _pick(VALUES, o1), _pick(VALUES, o0)]
    nodes = [2, 3, 2]  # two steps; step 2 may track a second variable
    rows = [(nodes[k], f"s{nodes[k]}", names[k], olds[k]) for k in range(nrows)]
    env = {"A": _pick(VALUES, va), "B": _pick(VALUES, vb)}
    marked = []

    class WF:
        db = _DB(rows)

        def mark_step_pending(self, step):
            marked.append(step.i)

    class OS:
        @staticmethod
        def getenv(name):
            return env[name]

    class FakeStep:
        def __init__(self, wf, i, label):
            self.i = i

    async def reporter(*a, **k):
        return None

    saved = (su.os, su.Step)
    su.os, su.Step = OS, FakeStep
    try:
        _drive(su.rescan_env_vars(WF(), reporter))
    finally:
        su.os, su.Step = saved
    want = sorted({nodes[k] for k in range(nrows) if env[names[k]] != olds[k]})
    return sorted(set(marked)) == want and len(marked) == len(set(marked))


def rescan_nglobs_stable(same_fs: bool, has_subs: bool, extra_when_unrestricted: bool, deleted_one: bool) -> bool:
    """A registered pattern is rescanned with the substitutions it was registered with: when the file
    system holds exactly the recorded matches nothing is reported and no step is marked pending; when
    a recorded match disappeared, the registration is persisted again (its step reruns)."""
    import stepup.core.startup as su

    subs = {"name": "a*"} if has_subs else {}
    recorded = {"a1", "a2"}
    # what a scan returns is a function of (pattern, substitutions): the file system
    on_disk_restricted = set(recorded) if same_fs and not deleted_one else ({"a1"} if deleted_one else {"a1", "a2", "a3"})
    on_disk_unrestricted = on_disk_restricted | ({"b1"} if extra_when_unrestricted else set())
    persisted = []

    class NG:
        def __init__(self, pattern, subs_=None):
            self.pattern, self.subs = pattern, dict(subs_ or {})
            self._files = None

        def glob(self):
            self._files = on_disk_restricted if (self.subs == subs) else on_disk_unrestricted

        def files(self):
            return sorted(self._files if self._files is not None else recorded)

    old = NG("${*name}", subs)

    class WF:
        db = _DB([])

        def nglob_registrations(self):
            return [(7, old, "step")]

        def persist_nglob_matches(self, nglob_i, step, ng):
            persisted.append((nglob_i, tuple(ng.files())))

    async def reporter(*a, **k):
        return None

    saved = su.NamedGlob
    su.NamedGlob = NG
    try:
        _drive(su.rescan_nglobs(WF(), reporter))
    finally:
        su.NamedGlob = saved
    changed = on_disk_restricted != recorded
    if not changed:
        return persisted == []
    return persisted == [(7, tuple(sorted(on_disk_restricted)))]


def step_hash_env_is_command_env(v_os: int, v_infra: int, in_infra: bool, dep: int) -> bool:
    """The value of a tracked environment variable that goes into the step hash is the value the
    step's command receives (Executor.base_env = os.environ overlaid with the infrastructure
    variables), so re-hashing an unchanged configuration yields the recorded hash."""
    import stepup.core.executor as ex

    name = _pick(NAMES, dep)
    os_env = {"A": _pick(VALUES, v_os) or "", "B": "fixed"}
    infra = {name: _pick(VALUES, v_infra) or ""} if in_infra else {}
    base_env = {**os_env, **infra}
    seen = {}

    class Result:
        messages = ()
        all_hashes = {}
        new_hashes = {}

    class StepStub:
        label = "s"

        def uses_shell(self):
            return False

        def get_env_overrides(self):
            return {}

    class Run:
        step = StepStub()
        inp_messages = []
        success = True
        inp_digest = None

    class SH:
        inp_digest = b"d"

        @staticmethod
        def from_inp(label, hashes, env, **kw):
            seen.update(env)
            return SH()

    class OS:
        environ = os_env

    class FakeExecutor:
        # the attributes the real method reads; base_env is what Executor.base_env caches
        # ({**os.environ, **infra_env}) and what _run_command copies into the command's environment
        db = _DB([])
        explain_rerun = False

        def __init__(self):
            self.base_env = base_env

        async def _run_work_thread(self, run, fn):
            return Result()

    saved = (ex.StepHash, ex.os)
    ex.StepHash, ex.os = SH, OS
    try:
        _drive(ex.Executor._compute_inp_step_hash(FakeExecutor(), Run(), {}, [name]))
    finally:
        ex.StepHash, ex.os = saved
    return seen == {name: base_env.get(name)}
