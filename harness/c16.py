"""CrossHair conditions for C16 (RPC framing, pairing, failure classes, exposure).

Byte strings are represented in a *stream-slice domain*: every value is a slice ``(lo, hi)`` of
the one incoming stream, so message sizes and fragment sizes are unbounded symbolic integers and
the whole question is linear integer arithmetic.  ``int.from_bytes`` inside ``stepup.core.rpc`` is
replaced by a lookup of the field that lives at that stream position (the bytes<->int conversion
itself is the subject of the z3 obligation O16.1a).
"""

from __future__ import annotations

import stepup.core.rpc as _rpc
from vf.rewrite import without_fstrings

# error-message formatting would realise the symbolic sizes: same code, f-strings -> constants
# (recompiled from the live source at import time, i.e. on every run)
_DECODE_NF = without_fstrings(_rpc._decode_header)
_READEXACTLY_NF = without_fstrings(_rpc._SocketReader.readexactly)


class Slice:
    """bytes-like: the stream bytes [lo, hi)."""

    def __init__(self, lo, hi, log):
        self.lo = lo
        self.hi = hi
        self.log = log

    def __len__(self):
        return self.hi - self.lo

    def __add__(self, other):
        if isinstance(other, Slice):
            if len(other) == 0:
                return self
            if len(self) == 0:
                return other
            if self.hi != other.lo:
                self.log.append("non-adjacent concatenation")
            return Slice(self.lo, other.hi, self.log)
        if isinstance(other, (bytes, bytearray)) and len(other) == 0:
            return self
        self.log.append("concatenation with foreign bytes")
        return self

    def __radd__(self, other):
        if isinstance(other, (bytes, bytearray)) and len(other) == 0:
            return self
        self.log.append("concatenation with foreign bytes")
        return self

    def __getitem__(self, idx):
        if not isinstance(idx, slice) or idx.step is not None:
            self.log.append("unsupported indexing")
            return self
        n = self.hi - self.lo
        start = 0 if idx.start is None else idx.start
        stop = n if idx.stop is None else idx.stop
        if start < 0 or stop < 0:
            self.log.append("negative index")
            return self
        start = min(start, n)
        stop = max(min(stop, n), start)
        return Slice(self.lo + start, self.lo + stop, self.log)

    def __eq__(self, other):
        return isinstance(other, Slice) and ((self.lo == other.lo and self.hi == other.hi) or (len(self) == 0 and len(other) == 0))

    def __hash__(self):
        return 0


class FakeSock:
    def __init__(self, frags, log):
        self.frags = frags  # fragment lengths, each >= 1
        self.k = 0
        self.pos = 0
        self.log = log

    def recv(self, n):
        if self.k >= len(self.frags):
            return Slice(self.pos, self.pos, self.log)  # peer gone: zero bytes
        f = self.frags[self.k]
        self.k += 1
        lo = self.pos
        self.pos = lo + f
        return Slice(lo, self.pos, self.log)


def _fake_int(fields, log):
    class FakeInt(int):
        @classmethod
        def from_bytes(cls, b, byteorder="big", *, signed=False):
            if not isinstance(b, Slice) or byteorder != "big" or signed:
                log.append("from_bytes on foreign value")
                return -1
            for lo, val in fields:
                if b.lo == lo and b.hi == lo + 8:
                    return val
            log.append("from_bytes on a slice that is not a header field")
            return -1

    return FakeInt


def reassembly(id0: int, id1: int, s0: int, s1: int, f0: int, f1: int, f2: int, f3: int, nfrag: int) -> bool:
    """Two messages (ids, body sizes s0, s1) arrive split into nfrag fragments of sizes f*; the stream
    may end early.  Reading message by message returns exactly the messages, or raises
    ConnectionResetError exactly when the stream is cut inside the message, or RPCError exactly when
    the announced size exceeds MAX_BODY_SIZE; never a short or shifted message."""
    import stepup.core.rpc as rpc
    from stepup.core.exceptions import RPCError

    log = []
    frags = [f0, f1, f2, f3][:nfrag]
    total = sum(frags)
    off0 = 0
    off1 = 16 + s0
    end1 = off1 + 16 + s1
    fields = [(off0, id0), (off0 + 8, s0), (off1, id1), (off1 + 8, s1)]
    saved = rpc.__dict__.get("int", None)
    saved_fns = (rpc._decode_header, rpc._SocketReader.readexactly)
    rpc.int = _fake_int(fields, log)
    rpc._decode_header = _DECODE_NF
    rpc._SocketReader.readexactly = _READEXACTLY_NF
    try:
        reader = rpc._SocketReader(FakeSock(frags, log), "sock")
        msgs = [(id0, s0, off0, off1), (id1, s1, off1, end1)]
        for cid, size, off, end in msgs:
            try:
                got_id, body = rpc._recv_socket_message(reader)
            except ConnectionResetError:
                # legitimate only if the stream ends before this message is complete, and the
                # message is not one that must be rejected before its body is read
                return total < end and not (total >= off + 16 and size > rpc.MAX_BODY_SIZE) and not log
            except RPCError:
                return size > rpc.MAX_BODY_SIZE and total >= off + 16 and not log
            if size > rpc.MAX_BODY_SIZE:
                return False
            if total < end:
                return False  # returned a message although the stream was cut inside it
            if got_id != cid:
                return False
            if size == 0:
                if body is not None:
                    return False
            elif not (isinstance(body, Slice) and body.lo == off + 16 and body.hi == end):
                return False
        return not log
    finally:
        rpc._decode_header, rpc._SocketReader.readexactly = saved_fns
        if saved is None:
            del rpc.int
        else:
            rpc.int = saved


class _Fut:
    def __init__(self, cancelled):
        self._cancelled = cancelled
        self.results = []
        self.excs = []

    def cancelled(self):
        return self._cancelled

    def set_result(self, r):
        self.results.append(r)

    def set_exception(self, e):
        self.excs.append(e)


def _drive(coro):
    try:
        coro.send(None)
    except StopIteration as stop:
        return stop.value
    raise RuntimeError("suspended")


def pairing_async(p0: int, p1: int, r0: int, r1: int, r2: int, nresp: int, c0: bool, c1: bool) -> bool:
    """SocketAsyncRPCClient._recv_loop: every pending future is resolved at most once, only with
    the body carrying its own id; an unknown id raises RPCError; when the loop ends every
    still-pending (non-cancelled) future has a ConnectionResetError."""
    import stepup.core.rpc as rpc
    from stepup.core.exceptions import RPCError

    if p0 == p1:
        return True
    resp_ids = [r0, r1, r2][:nresp]
    bodies = [f"body{k}".encode() for k in range(3)]

    async def fake_iter(reader, stop_event):
        for k, rid in enumerate(resp_ids):
            yield rid, bodies[k]

    saved = rpc._iter_stream_messages
    rpc._iter_stream_messages = fake_iter
    try:
        client = object.__new__(rpc.SocketAsyncRPCClient)
        futs = {p0: _Fut(c0), p1: _Fut(c1)}
        call = rpc.RPCCall("f")
        object.__setattr__(client, "_pending", {k: rpc._PendingCall(call, f) for k, f in futs.items()})
        object.__setattr__(client, "_reader", None)
        object.__setattr__(client, "_stop_event", None)
        raised = None
        try:
            _drive(client._recv_loop())
        except RPCError as exc:
            raised = exc
        # oracle
        seen = set()
        expect_raise = False
        expect = {p0: [], p1: []}
        for k, rid in enumerate(resp_ids):
            if rid in expect and rid not in seen:
                seen.add(rid)
                expect[rid].append(bodies[k])
            else:
                expect_raise = True
                break
        if (raised is not None) != expect_raise:
            return False
        for pid, fut in futs.items():
            if fut._cancelled:
                if fut.results or fut.excs:
                    return False
                continue
            if fut.results != expect[pid]:
                return False
            if expect[pid]:
                if fut.excs:
                    return False
            else:
                if len(fut.excs) != 1 or not isinstance(fut.excs[0], ConnectionResetError):
                    return False
        return len(client._pending) == 0
    finally:
        rpc._iter_stream_messages = saved


def pairing_sync(expected: int, got: int, has_body: bool) -> bool:
    """SocketSyncRPCClient._recv_response: a response with another id raises RPCError."""
    import stepup.core.rpc as rpc
    from stepup.core.exceptions import RPCError

    saved = rpc._recv_socket_message
    body = b"x" if has_body else None
    rpc._recv_socket_message = lambda reader: (got, body)
    try:
        client = object.__new__(rpc.SocketSyncRPCClient)
        object.__setattr__(client, "_reader", None)
        try:
            r = client._recv_response(expected)
        except RPCError:
            return got != expected
        return got == expected and r == body
    finally:
        rpc._recv_socket_message = saved


class _Task:
    def __init__(self, cancelled, result):
        self._c = cancelled
        self._r = result

    def cancelled(self):
        return self._c

    def __await__(self):
        if False:
            yield
        return self._r


def send_loop_pairing(i0: int, i1: int, c0: bool, c1: bool, enc_fail: int) -> bool:
    """RPCServerConnection._send_loop: each completed, non-cancelled call gets exactly one reply
    carrying its own call id: the encoded result, or the empty sentinel when encoding fails
    (after which the loop ends with that exception)."""
    import stepup.core.rpc as rpc

    sent = []

    async def fake_send(writer, call_id, body):
        sent.append((call_id, body))

    async def fake_iter(get, stop_event):
        yield i0, _Task(c0, "r0")
        yield i1, _Task(c1, "r1")

    def fake_encode(payload):
        if (enc_fail == 1 and payload == "r0") or (enc_fail == 2 and payload == "r1"):
            raise ValueError("unpicklable")
        return ("enc", payload)

    saved = (rpc._send_stream_message, rpc.iter_until_stopped, rpc._encode_body)
    rpc._send_stream_message, rpc.iter_until_stopped, rpc._encode_body = fake_send, fake_iter, fake_encode
    try:
        conn = object.__new__(rpc.RPCServerConnection)
        object.__setattr__(conn, "writer", None)
        object.__setattr__(conn, "_completed", type("Q", (), {"get": None})())
        object.__setattr__(conn, "_stop_event", None)
        raised = False
        try:
            _drive(conn._send_loop())
        except ValueError:
            raised = True
        expect = []
        expect_raise = False
        for cid, canc, res, failing in ((i0, c0, "r0", enc_fail == 1), (i1, c1, "r1", enc_fail == 2)):
            if canc:
                continue
            if failing:
                expect.append((cid, None))
                expect_raise = True
                break
            expect.append((cid, ("enc", res)))
        return sent == expect and raised == expect_raise
    finally:
        rpc._send_stream_message, rpc.iter_until_stopped, rpc._encode_body = saved


def _pick(items, i):
    """items[i] by explicit branching, so that a symbolic index forks instead of producing a
    symbolic element (CrossHair cannot realise symbolic types)."""
    for k in range(len(items)):
        if i == k:
            return items[k]
    raise IndexError(i)


def _exc_classes():
    import stepup.core.exceptions as ex

    usage = [c for c in vars(ex).values() if isinstance(c, type) and issubclass(c, ex.UsageError)]
    usage.sort(key=lambda c: c.__name__)
    others = [ValueError, KeyError, RuntimeError, ex.RPCError, ex.ConsistencyError, AssertionError, OSError]
    others = [c for c in others if not issubclass(c, ex.UsageError)]
    return usage, others


def failure_class(kind: int, debug: bool) -> bool:
    """A failure inside the director comes back as the same user-facing class (UsageError
    subclasses, unless STEPUP_DEBUG), and as RPCError for everything else -- never anything else."""
    import stepup.core.rpc as rpc
    from stepup.core.exceptions import RPCError, UsageError

    usage, others = _exc_classes()
    classes = usage + others
    classes = (classes * 2)[:16]  # padded to exactly 16 entries: indexed without arithmetic
    cls = _pick(classes, kind)
    try:
        exc = cls("boom")
    except TypeError:
        return True
    saved = rpc.is_debug
    rpc.is_debug = lambda: debug
    try:
        failure = rpc.RemoteFailure.from_exception(exc)
        try:
            rpc._raise_remote_error(failure, rpc.RPCCall("f"))
        except BaseException as got:  # noqa: BLE001
            if isinstance(exc, UsageError) and not debug:
                return type(got) is cls and str(got) == str(exc)
            return type(got) is RPCError
        return False
    finally:
        rpc.is_debug = saved


class _Handler:
    def __init__(self):
        self.called = []

    def hidden(self, x=0):
        self.called.append("hidden")
        return 1

    def _private(self):
        self.called.append("_private")
        return 2


def _make_handler():
    import stepup.core.rpc as rpc

    class H(_Handler):
        @rpc.allow_rpc
        def exposed(self, x=0):
            self.called.append("exposed")
            return 3

        @rpc.allow_rpc
        async def exposed_async(self, x=0):
            self.called.append("exposed_async")
            return 4

    return H()


NAMES = ["exposed", "exposed_async", "hidden", "_private", "called", "__init__", "__class__", "missing", "__dict__"]


def exposure(name_i: int, nargs: int) -> bool:
    """Only procedures carrying @allow_rpc can be invoked; anything else is an RPCError and runs nothing."""
    import stepup.core.rpc as rpc
    from stepup.core.exceptions import RPCError

    h = _make_handler()
    name = _pick(NAMES, name_i)
    call = rpc.RPCCall(name, [(), (0,), (0, 1)][nargs])
    try:
        r = _drive(rpc._call_procedure(h, call))
    except RPCError:
        return h.called == []
    return name in ("exposed", "exposed_async") and h.called == [name] and nargs <= 1


class _AsyncReader:
    """asyncio.StreamReader stand-in over the slice domain: `avail` bytes arrive, then EOF or reset."""

    def __init__(self, avail, reset, log):
        self.pos = 0
        self.avail = avail
        self.reset = reset
        self.log = log

    async def readexactly(self, n):
        import asyncio

        if self.pos + n > self.avail:
            if self.reset:
                raise ConnectionResetError("reset")
            raise asyncio.IncompleteReadError(b"", n)
        lo = self.pos
        self.pos = lo + n
        return Slice(lo, self.pos, self.log)


def stream_recv(id0: int, s0: int, avail: int, reset: bool) -> bool:
    """_recv_stream_message: a peer that vanishes at ANY byte offset (before, inside the header,
    inside the body) is reported as None and never raises; an oversized header is an RPCError; a
    complete message is returned exactly."""
    import stepup.core.rpc as rpc
    from stepup.core.exceptions import RPCError

    log = []
    fields = [(0, id0), (8, s0)]
    saved = rpc.__dict__.get("int", None)
    saved_fn = rpc._decode_header
    rpc.int = _fake_int(fields, log)
    rpc._decode_header = _DECODE_NF
    try:
        reader = _AsyncReader(avail, reset, log)
        try:
            msg = _drive(rpc._recv_stream_message(reader))
        except RPCError:
            return avail >= 16 and s0 > rpc.MAX_BODY_SIZE and not log
        except BaseException:  # noqa: BLE001 - anything else escaping is a violation
            return False
        if avail >= 16 and s0 > rpc.MAX_BODY_SIZE:
            return False
        if avail < 16 + s0:
            return msg is None and not log
        if msg is None:
            return False
        got_id, body = msg
        if got_id != id0:
            return False
        if s0 == 0:
            return body is None and not log
        return isinstance(body, Slice) and body.lo == 16 and body.hi == 16 + s0 and not log
    finally:
        rpc._decode_header = saved_fn
        if saved is None:
            del rpc.int
        else:
            rpc.int = saved


class _Boom:
    def __init__(self, exc):
        self.exc = exc

    def proc(self):
        raise self.exc


def capture_failure(kind: int, is_async: bool) -> bool:
    """_call_and_capture_failure never raises: whatever ends the procedure -- an ordinary error, a
    usage error, a cancellation, SystemExit, KeyboardInterrupt -- becomes a RemoteFailure reply, so
    a call that was started is always answered."""
    import asyncio
    import logging

    import stepup.core.rpc as rpc
    from stepup.core.exceptions import GraphError

    excs = [ValueError("v"), GraphError("g"), asyncio.CancelledError(), KeyboardInterrupt(), SystemExit(3), GeneratorExit(), RuntimeError("r"), MemoryError()]
    exc = _pick(excs, kind)

    class H:
        @rpc.allow_rpc
        def proc(self):
            raise exc

        @rpc.allow_rpc
        async def aproc(self):
            raise exc

    logging.disable(logging.CRITICAL)
    try:
        try:
            r = _drive(rpc._call_and_capture_failure(H(), rpc.RPCCall("aproc" if is_async else "proc")))
        except BaseException:  # noqa: BLE001
            return False
        return isinstance(r, rpc.RemoteFailure) and r.qualname == type(exc).__qualname__ and r.usage == isinstance(exc, GraphError)
    finally:
        logging.disable(logging.NOTSET)
