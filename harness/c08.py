"""CrossHair condition for C08: Workflow.define_step against registered glob patterns, with the
graph as a stub whose recycle outcome is an arbitrary (symbolic) answer."""

from __future__ import annotations

import types

import stepup.core.enums  # noqa: F401  (imported before CrossHair starts tracing)
import stepup.core.nglob  # noqa: F401
import stepup.core.workflow  # noqa: F401

PATTERNS = ["*.txt", "out/*.dat", "data/**", "r${*n}.csv"]
PATHS = ["out.txt", "out/x.dat", "src/main.c", "data/a/b", "r1.csv", "out/y/x.dat"]
# hand-written truth table: MATCH[pattern index] = set of path indices it matches
MATCH = [{0}, {1}, {3}, {4}]
REGEX = None


def _pick(items, i):
    for k in range(len(items)):
        if i == k:
            return items[k]
    raise IndexError(i)


class _Created(Exception):
    pass


def define_vs_glob(gi: int, oi: int, oj: int, recycled: bool, vol: bool, attached: bool, second: bool) -> bool:
    """A step definition whose output or volatile output is matched by a pattern that an attached step
    registered is rejected with a GraphError, and one without such a match is not rejected for that
    reason -- whether the definition is fresh or an identical detached step is recycled (the answer
    of try_recycle is arbitrary)."""
    import stepup.core.workflow as wfm
    from stepup.core.exceptions import GraphError
    from stepup.core.nglob import convert_nglob_to_regex

    global REGEX
    if REGEX is None:
        REGEX = [convert_nglob_to_regex(p, {}) for p in PATTERNS]
    pattern, regex = _pick(PATTERNS, gi), _pick(REGEX, gi)
    outs = [_pick(PATHS, oi)] + ([_pick(PATHS, oj)] if second else [])
    idx = {oi} | ({oj} if second else set())

    class DB:
        def execute(self, sql, args=()):
            if "FROM nglob" in sql:
                assert "NOT node.detached" in sql
                return iter([("./plan.py", pattern, regex)] if attached else [])
            return iter(())

    fake = types.SimpleNamespace()
    fake.db = DB()
    fake.root = types.SimpleNamespace(i=0, products=lambda kind: iter(()))
    fake._raise_if_forbidden_target = lambda path, state: None
    fake._raise_if_glob_match = types.MethodType(wfm.Workflow._raise_if_glob_match, fake)
    fake.try_recycle = lambda *a, **k: (types.SimpleNamespace(i=7) if recycled else None)
    fake._hashes_to_check = lambda files: {}
    fake._raise_if_step_exists = lambda creator, label: None
    fake._check_declaration = lambda phrase, path, role: None

    def create(*a, **k):
        raise _Created()

    fake.create = create
    creator = types.SimpleNamespace(i=3)
    kw = {"vol_paths": outs} if vol else {"out_paths": outs}
    try:
        wfm.Workflow.define_step(fake, creator, "gen", **kw)
        rejected = False
    except _Created:
        rejected = False
    except GraphError:
        rejected = True
    want = attached and bool(_pick(MATCH, gi) & idx)
    return rejected == want
