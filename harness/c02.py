"""CrossHair conditions for C02/O2.1: the text of an error about two conflicting declarations does
not depend on which of the two arrived first."""

from __future__ import annotations

import stepup.core.workflow  # noqa: F401  (imported before CrossHair starts tracing)


def _pick(items, i):
    for k in range(len(items)):
        if i == k:
            return items[k]
    raise IndexError(i)


CREATORS = ["step (a)", "step (b  # wd=x)", "StepUp itself"]


def _call(f, *a):
    try:
        return ("ok", f(*a))
    except Exception as exc:  # noqa: BLE001
        return ("raise", type(exc).__name__)


def file_collision_symmetric(ra: int, ca: int, rb: int, cb: int) -> bool:
    """_file_collision_message(path, A, B) == _file_collision_message(path, B, A), including which
    exception (if any) is raised; a declaration by StepUp itself is not 'authored'."""
    import stepup.core.workflow as wfm
    from stepup.core.enums import FileRole

    roles = list(FileRole)
    a = wfm.Decl(_pick(roles, ra), _pick(CREATORS, ca), authored=(ca != 2))
    b = wfm.Decl(_pick(roles, rb), _pick(CREATORS, cb), authored=(cb != 2))
    x = _call(wfm._file_collision_message, "p/q", a, b)
    y = _call(wfm._file_collision_message, "p/q", b, a)
    if x != y:
        return False
    if x[0] == "ok":
        msg = x[1]
        return "p/q" in msg and a.creator in msg and b.creator in msg
    return x[1] == "ConsistencyError" and ((a == b) or (ca == 2 and cb == 2))


def duplicate_messages_symmetric(ca: int, cb: int) -> bool:
    import stepup.core.workflow as wfm

    a, b = _pick(CREATORS, ca), _pick(CREATORS, cb)
    ok = wfm._duplicate_step_message("cmd", a, b) == wfm._duplicate_step_message("cmd", b, a)
    ok = ok and wfm._duplicate_static_tree_message("t/", a, b) == wfm._duplicate_static_tree_message("t/", b, a)
    return ok


class _Node:
    def __init__(self, kind, label):
        self._kind = kind
        self.label = label

    def kind(self):
        return self._kind


def claim_collision_symmetric(ra: int, na: int, rb: int, nb: int) -> bool:
    """The message for 'new declaration B meets existing claim A' equals the one for 'new
    declaration A meets existing claim B' (ordinary creators: steps and the root)."""
    import stepup.core.workflow as wfm
    from stepup.core.enums import FileRole

    roles = list(FileRole)
    nodes = [_Node("step", "a"), _Node("step", "b"), _Node("root", "")]
    A, B = _pick(nodes, na), _pick(nodes, nb)
    rA, rB = _pick(roles, ra), _pick(roles, rb)
    x = _call(wfm._claim_collision_message, "p", wfm.Claim(rA, A), wfm.Decl.from_node(rB, B))
    y = _call(wfm._claim_collision_message, "p", wfm.Claim(rB, B), wfm.Decl.from_node(rA, A))
    return x == y
