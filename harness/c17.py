"""CrossHair condition for C17/O17.5: NamedGlob.extend/reduce/will_change/files with an abstract
matcher (symbolic table path -> key | no match) over a small universe of concrete path names."""

from __future__ import annotations

import stepup.core.nglob  # noqa: F401  (imported before CrossHair starts tracing)

U = ["p0", "p1", "p2"]


class _Match:
    def __init__(self, key):
        self.key = key

    def groupdict(self):
        return {"n": self.key}


class _Regex:
    def __init__(self, table):
        self.table = table

    def fullmatch(self, path):
        k = self.table.get(str(path), 0)
        return None if k == 0 else _Match(f"key{k}")

    def __deepcopy__(self, memo):
        return self


def _make(table, old):
    from path import Path

    from stepup.core.nglob import NamedGlob

    ng = object.__new__(NamedGlob)
    object.__setattr__(ng, "_pattern", "${*n}")
    object.__setattr__(ng, "_subs", {})
    object.__setattr__(ng, "_used_names", ("n",))
    object.__setattr__(ng, "_glob_pattern", "*")
    object.__setattr__(ng, "_regex", _Regex(table))
    results = {}
    for p in old:
        results.setdefault((f"key{table[p]}",), set()).add(Path(p))
    object.__setattr__(ng, "_results", results)
    return ng


def update_equals_rescan2(k0: int, k1: int, o0: bool, o1: bool, a0: bool, a1: bool, d0: bool, d1: bool) -> bool:
    """Universe of two paths (quick tier)."""
    return update_equals_rescan(k0, k1, 0, o0, o1, False, a0, a1, False, d0, d1, False)


def update_equals_rescan(k0: int, k1: int, k2: int, o0: bool, o1: bool, o2: bool,
                         a0: bool, a1: bool, a2: bool, d0: bool, d1: bool, d2: bool) -> bool:
    table = {"p0": k0, "p1": k1, "p2": k2}
    old = [p for p, b in zip(U, (o0, o1, o2)) if b and table[p] != 0]
    added = [p for p, b in zip(U, (a0, a1, a2)) if b]
    deleted = [p for p, b in zip(U, (d0, d1, d2)) if b]
    ng = _make(table, old)
    before = {k: set(v) for k, v in ng._results.items()}
    evolved = ng.will_change(deleted, added)
    # rescan oracle: what a fresh scan of the file system after the change records
    exists = (set(old) | set(added)) - set(deleted)
    want = sorted(p for p in exists if table[p] != 0)
    want_results = {}
    for p in want:
        want_results.setdefault((f"key{table[p]}",), set()).add(p)
    if {k: set(v) for k, v in ng._results.items()} != before:
        return False  # will_change must not modify the original
    if evolved is None:
        return want_results == {k: {str(x) for x in v} for k, v in before.items()}
    got = {k: {str(x) for x in v} for k, v in evolved._results.items()}
    return got == want_results and [str(x) for x in evolved.files()] == want and got != {k: {str(x) for x in v} for k, v in before.items()}
