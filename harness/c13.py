"""CrossHair conditions for C13/O13.4 (stat shortcut).  Real code: FileHash.refreshed,
compute_inp_hashes; os.stat and compute_file_digest are stubs with arbitrary answers."""

from __future__ import annotations

import stepup.core.hash  # noqa: F401  (imported before CrossHair starts tracing)

DIG = [b"\x01" * 32, b"\x02" * 32, b"\x03" * 32]
MT = [7.0, 8.0, 9.0]  # recorded mtime is MT[1]: the current one may be older, equal or newer; mtimes are looked up by index: float(symbolic int) is beyond the solver


class _St:
    def __init__(self, mode, mtime, size, ino):
        self.st_mode = mode
        self.st_mtime = mtime
        self.st_size = size
        self.st_ino = ino


class _Ev:
    def is_set(self):
        return False


def _install(exists, n_mode, n_mtime, n_size, n_ino, n_dig, calls):
    import stepup.core.hash as hm

    saved = (hm.os, hm.compute_file_digest, hm.Path)

    class FakeOS:
        @staticmethod
        def stat(path):
            if not exists:
                raise OSError("gone")
            return _St(n_mode, n_mtime, n_size, n_ino)

    def fake_digest(path, follow_symlinks=True, cancel_event=None):
        calls.append(path)
        return DIG[n_dig]

    hm.os = FakeOS
    hm.compute_file_digest = fake_digest
    hm.Path = lambda p: p

    def undo():
        hm.os, hm.compute_file_digest, hm.Path = saved

    return undo


def refreshed_contract(d_mode: int, d_size: int, d_mtime: int, d_ino: int, d_dig: int,
                       exists: bool, o_known: bool) -> bool:
    """The recorded values are fixed; each current value differs from its record by d_* (0 = same)."""
    from stepup.core.hash import FileHash

    o_mode, o_size, o_mtime, o_ino, o_dig = 33188, 5, MT[1], 11, 0
    n_mode, n_size, n_mtime, n_ino, n_dig = o_mode + d_mode, o_size + d_size, MT[d_mtime], o_ino + d_ino, o_dig + d_dig  # d_mtime == 1 means unchanged
    calls = []
    undo = _install(exists, n_mode, n_mtime, n_size, n_ino, n_dig, calls)
    try:
        old = FileHash(DIG[o_dig], o_mode, o_mtime, o_size, o_ino) if o_known else FileHash.unknown()
        new = old.refreshed("p")
        if not exists:
            return new.is_unknown and (new is old) == (not o_known)
        stat_same = o_known and (o_mode == n_mode and o_mtime == n_mtime and o_size == n_size and o_ino == n_ino)
        if stat_same:
            return new is old and calls == []
        # some stat field differs (or the file was unknown): the content must be re-hashed
        ok = calls == ["p"] and new.digest == DIG[n_dig] and new.mode == n_mode and new.size == n_size
        ok = ok and new.mtime == n_mtime and new.inode == n_ino
        content_changed = (not o_known) or DIG[o_dig] != DIG[n_dig] or o_mode != n_mode or o_size != n_size
        ok = ok and ((new != old) == content_changed)
        return ok
    finally:
        undo()


def compute_inp_contract(d_mode: int, d_size: int, d_mtime: int, d_ino: int, d_dig: int,
                         exists: bool) -> bool:
    from stepup.core.hash import FileHash, compute_inp_hashes

    o_mode, o_size, o_mtime, o_ino, o_dig = 33188, 5, MT[1], 11, 0
    n_mode, n_size, n_mtime, n_ino, n_dig = o_mode + d_mode, o_size + d_size, MT[d_mtime], o_ino + d_ino, o_dig + d_dig  # d_mtime == 1 means unchanged
    calls = []
    undo = _install(exists, n_mode, n_mtime, n_size, n_ino, n_dig, calls)
    try:
        old = FileHash(DIG[o_dig], o_mode, o_mtime, o_size, o_ino)
        res = compute_inp_hashes({"p": old}, _Ev())
        stat_same = exists and (o_mode == n_mode and o_mtime == n_mtime and o_size == n_size and o_ino == n_ino)
        changed = (not exists) or (not stat_same and (DIG[o_dig] != DIG[n_dig] or o_mode != n_mode or o_size != n_size))
        ok = (("p" in res.new_hashes) == changed) and ((len(res.messages) > 0) == changed)
        ok = ok and "p" in res.all_hashes
        if changed and not exists:
            ok = ok and res.new_hashes["p"].is_unknown
        return ok
    finally:
        undo()
