"""CrossHair conditions for C19 (exit status): finalize.report_unbuilt with stubs for its three
sub-reports, _report_glob_violations / GlobViolation.is_error."""

from __future__ import annotations

import stepup.core.finalize  # noqa: F401  (imported before CrossHair starts tracing)
import stepup.core.workflow  # noqa: F401


def _drive(coro):
    try:
        coro.send(None)
    except StopIteration as stop:
        return stop.value
    raise RuntimeError("suspended")


def _pick(items, i):
    for k in range(len(items)):
        if i == k:
            return items[k]
    raise IndexError(i)


def _warm():
    from stepup.core.enums import ReturnCode

    for v in range(64):
        ReturnCode(v)


_warm()


def report_unbuilt_bits(nfailed: int, draining: bool, pending: bool, miss_warn: bool, glob_bits: int, ndetached_failed: int = 0) -> bool:
    """report_unbuilt: FAILED whenever a step failed; DRAINED iff draining; PENDING iff not draining
    and a required step remained pending; zero only if nothing failed, nothing is pending, no
    target is missing and no glob violation was found; a glob error yields FAILED whenever the
    glob report runs (i.e. when nothing else went wrong)."""
    import stepup.core.finalize as fin
    from stepup.core.enums import ReturnCode, StepState

    calls = []

    class DB:
        async def __aenter__(self):
            return None

        async def __aexit__(self, *a):
            return False

    class Cur:
        def __init__(self, rows):
            self.rows = rows

        def fetchone(self):
            return self.rows[0] if self.rows else None

        def __iter__(self):
            return iter(self.rows)

    class DBX(DB):
        def execute(self, sql, args=()):
            # any direct query over the step table also sees the detached (inactive) steps
            if "count" in sql.lower():
                return Cur([(nfailed + ndetached_failed,)])
            return Cur([(k,) for k in range(nfailed + ndetached_failed)])

    class WF:
        db = DBX()

        def steps(self, state):
            assert state == StepState.FAILED
            return iter(range(nfailed))  # Workflow.steps() yields the active (attached) steps

    class Sched:
        pass

    sched = Sched()
    sched.draining = draining

    async def rep(*a, **k):
        return None

    async def fake_pending(wf, reporter):
        calls.append("pending")
        return ReturnCode.PENDING if pending else ReturnCode(0)

    async def fake_missing(wf, reporter):
        calls.append("missing")
        return ReturnCode.WARNING if miss_warn else ReturnCode(0)

    gb = _pick([ReturnCode(0), ReturnCode.WARNING, ReturnCode.FAILED, ReturnCode.WARNING | ReturnCode.FAILED], glob_bits)

    async def fake_glob(wf, reporter):
        calls.append("glob")
        return gb

    saved = (fin._report_pending_steps, fin._report_missing_targets, fin._report_glob_violations)
    fin._report_pending_steps, fin._report_missing_targets, fin._report_glob_violations = fake_pending, fake_missing, fake_glob
    try:
        rc = _drive(fin.report_unbuilt(WF(), sched, rep))
    finally:
        fin._report_pending_steps, fin._report_missing_targets, fin._report_glob_violations = saved
    ok = bool(rc & ReturnCode.FAILED) >= (nfailed > 0)
    ok = ok and bool(rc & ReturnCode.DRAINED) == draining
    ok = ok and bool(rc & ReturnCode.PENDING) == ((not draining) and pending)
    glob_ran = "glob" in calls
    ok = ok and glob_ran == ((not draining) and nfailed == 0 and not pending and not miss_warn)
    if glob_ran:
        ok = ok and bool(rc & ReturnCode.FAILED) == bool(gb & ReturnCode.FAILED)
        ok = ok and bool(rc & ReturnCode.WARNING) == bool(gb & ReturnCode.WARNING)
    else:
        ok = ok and bool(rc & ReturnCode.FAILED) == (nfailed > 0)
    if rc == ReturnCode(0):
        ok = ok and nfailed == 0 and not draining and not pending and not miss_warn and gb == ReturnCode(0)
    ok = ok and not (rc & (ReturnCode.INTERNAL | ReturnCode.INTERRUPTED))
    if draining:
        ok = ok and calls == []
    return ok


def glob_violation_bits(s0: int, s1: int, n: int) -> bool:
    """_report_glob_violations: FAILED iff some violation is a file a step builds (a node outside the
    STATIC role); WARNING iff some violation has no node at all."""
    import stepup.core.finalize as fin
    from stepup.core.enums import FILE_ROLE_BY_STATE, FileRole, FileState, ReturnCode
    from stepup.core.workflow import GlobViolation

    nonstatic = [s for s in FileState if FILE_ROLE_BY_STATE.get(s) not in (FileRole.STATIC,) and s in FILE_ROLE_BY_STATE]
    states = [None, *nonstatic]
    vs = [GlobViolation("step", "*.x", "a.x", _pick(states, s0)), GlobViolation("step", "*.x", "b.x", _pick(states, s1))][:n]

    class DB:
        async def __aenter__(self):
            return None

        async def __aexit__(self, *a):
            return False

    class WF:
        db = DB()

        def find_glob_violations(self):
            return list(vs)

    async def rep(*a, **k):
        return None

    rc = _drive(fin._report_glob_violations(WF(), rep))
    want_failed = any(v.state is not None for v in vs)
    want_warn = any(v.state is None for v in vs)
    return bool(rc & ReturnCode.FAILED) == want_failed and bool(rc & ReturnCode.WARNING) == want_warn and not (rc & ~(ReturnCode.FAILED | ReturnCode.WARNING))
