"""CrossHair conditions for C20 (path translation).  Real code: stepup.core.path.* and
api._keep_affixes, executed through the purepath shim (vf/shims/purepath.py)."""

from __future__ import annotations

import stepup.core.api  # noqa: F401  (imported before CrossHair starts tracing)
import stepup.core.executor  # noqa: F401
import stepup.core.step  # noqa: F401

import ast
import inspect
import textwrap

from vf.shims import purepath as pp
from vf.shims.purepath import SPath, _s

ROOT = "/r"
HERES = [None, ".", "s", "s/t", "../o"]
M = pp.module


def _denote(base: str, rel) -> str:
    """The file that `rel` designates from directory `base` (symlink-free)."""
    return M.normpath(M.join(base, _s(rel)))


def _setup(here_i: int):
    here = HERES[here_i]
    cwd = M.normpath(M.join(ROOT, here or "."))
    return pp.install(pp.Env(root=ROOT, here=here, cwd=cwd)), cwd


def translate_denotes(p: str, wd: str, here_i: int) -> bool:
    """translate(p, wd) designates, from the root, the file p designates from root/HERE/wd."""
    import stepup.core.path as sp

    undo, cwd = _setup(here_i)
    try:
        t = sp.translate(p, wd)
        if M.isabs(p):
            return _s(t) == M.normpath(p)
        step_dir = _denote(cwd, wd)  # wd relative to HERE, or absolute
        return _denote(ROOT, t) == _denote(step_dir, p)
    finally:
        undo()


def translate_normalized(p: str, wd: str, here_i: int) -> bool:
    """For a relative workdir the recorded path is normalised (no '.', '//' or inner '..')."""
    import stepup.core.path as sp

    undo, cwd = _setup(here_i)
    try:
        if M.isabs(p) or M.isabs(wd):
            return True
        t = _s(sp.translate(p, wd))
        return t == M.normpath(t)
    finally:
        undo()


def translate_identity(p: str) -> bool:
    """An already normalised root-relative path is unchanged (wd='.', HERE unset)."""
    import stepup.core.path as sp

    undo, cwd = _setup(0)
    try:
        if p != M.normpath(p) or M.isabs(p) or p == ".." or p.startswith("../"):
            return True
        return _s(sp.translate(p)) == p
    finally:
        undo()


def roundtrip_denotes(p: str, wd: str, here_i: int) -> bool:
    """translate_back(translate(p, wd), wd) designates the same file as p from the step's workdir."""
    import stepup.core.path as sp

    undo, cwd = _setup(here_i)
    try:
        if M.isabs(p) or M.isabs(wd):
            return True
        step_dir = _denote(cwd, wd)
        tb = sp.translate_back(sp.translate(p, wd), wd)
        return _denote(step_dir, tb) == _denote(step_dir, p)
    finally:
        undo()


def back_denotes(t: str, wd: str, here_i: int) -> bool:
    """translate_back(t, wd) designates, from root/HERE/wd, the file t designates from the root."""
    import stepup.core.path as sp

    undo, cwd = _setup(here_i)
    try:
        if M.isabs(t) or M.isabs(wd):
            return True
        step_dir = _denote(cwd, wd)
        tb = sp.translate_back(t, wd)
        return _denote(step_dir, tb) == _denote(ROOT, t)
    finally:
        undo()


def affixes_range(p: str) -> bool:
    import stepup.core.path as sp

    lead, trail = sp.get_affixes(p)
    ok = lead in ("", "./") and trail in ("", "/")
    ok = ok and ((trail == "/") == p.endswith("/"))
    core = p[:-1] if p.endswith("/") else p
    ok = ok and ((lead == "./") == core.startswith("./"))
    return ok


def keep_affixes_translate(p: str, here_i: int) -> bool:
    """_keep_affixes(p, translate): trailing '/' kept iff present; leading './' kept iff present
    (except './' itself); the result designates the same file."""
    import stepup.core.api as api
    import stepup.core.path as sp
    from stepup.core.exceptions import PathError

    undo, cwd = _setup(here_i)
    saved = (api.get_affixes, api.apply_affixes, api.coerce_path)
    api.coerce_path = sp.coerce_path
    try:
        if M.isabs(p) or p == "":
            return True
        try:
            r = _s(api._keep_affixes(p, sp.translate))
        except PathError:
            # documented: the transformed path already carries the affix (e.g. translate gives
            # './x'?  never for normalised output) -- not expected for relative inputs
            return False
        lead, trail = sp.get_affixes(p)
        ok = r.endswith("/") == (trail == "/") or r in ("/",)
        ok = ok and ((r.startswith("./") and r != "./") == (lead == "./"))
        ok = ok and _denote(ROOT, r) == _denote(cwd, p)
        return ok
    finally:
        api.coerce_path = saved[2]
        undo()


def apply_affixes_contract(p: str, lead_i: int, trail_i: int) -> bool:
    """apply_affixes raises PathError exactly in its documented cases, else concatenates."""
    import stepup.core.path as sp
    from stepup.core.exceptions import PathError

    undo, cwd = _setup(0)
    try:
        lead = ["", "./", "/", "."][lead_i]
        trail = ["", "/", "//", "x"][trail_i]
        should_raise = (
            (lead not in ("", "./"))
            or (lead == "./" and (p.startswith("/") or p.startswith("./")))
            or (trail not in ("", "/"))
            or (trail == "/" and (lead + p).endswith("/"))
        )
        try:
            r = _s(sp.apply_affixes(p, lead, trail))
        except PathError:
            return should_raise
        return (not should_raise) and r == lead + p + trail
    finally:
        undo()


def parent_dir_nonempty(p: str) -> bool:
    import stepup.core.path as sp

    undo, cwd = _setup(0)
    try:
        r = sp.parent_dir(p)
        return len(r) > 0 and (r == "/" * len(r) or not r.endswith("/"))
    finally:
        undo()


def _root_here_exprs():
    """The two expressions assigned to env['ROOT'] and env['HERE'] in Executor._run_command."""
    from stepup.core.executor import Executor

    src = textwrap.dedent(inspect.getsource(Executor._run_command))
    tree = ast.parse(src)
    found = {}
    for node in ast.walk(tree):
        if (
            isinstance(node, ast.Assign)
            and len(node.targets) == 1
            and isinstance(node.targets[0], ast.Subscript)
            and isinstance(node.targets[0].value, ast.Name)
            and node.targets[0].value.id == "env"
            and isinstance(node.targets[0].slice, ast.Constant)
            and node.targets[0].slice.value in ("ROOT", "HERE")
        ):
            found[node.targets[0].slice.value] = ast.unparse(node.value)
    if set(found) != {"ROOT", "HERE"}:
        raise RuntimeError("cannot find env['ROOT'] / env['HERE'] assignments in Executor._run_command")
    return found


_RH = _root_here_exprs()


class _PathCwd(SPath):
    __slots__ = ()

    @classmethod
    def cwd(cls):
        return SPath(pp.CWD)


def root_here_env(workdir: str) -> bool:
    """ROOT designates the project root from the step's workdir; HERE designates the workdir
    from the root (the director's cwd is the root)."""
    undo, cwd = _setup(0)
    try:
        ns = {"Path": _PathCwd, "workdir": SPath(workdir), "str": _s}
        root_v = eval(_RH["ROOT"], ns)
        here_v = eval(_RH["HERE"], ns)
        step_dir = _denote(ROOT, workdir)
        ok = _denote(step_dir, root_v) == ROOT
        ok = ok and _denote(ROOT, here_v) == step_dir
        ok = ok and _denote(_denote(step_dir, root_v), here_v) == step_dir
        return ok
    finally:
        undo()


MARK = "  # wd="


def label_roundtrip(c: str, w1: str, w2: str, marked: bool) -> bool:
    """The step label carries the working directory; the director reads it back with
    Step.command_and_workdir.  For every command (without the marker) and every workdir -- also
    one whose name contains the marker text -- the pair is recovered exactly."""
    import stepup.core.step as st

    workdir = w1 + (MARK if marked else "") + w2
    if workdir == "":
        return True
    saved = st.Path
    st.Path = lambda p: p
    try:
        try:
            label = st.Step.adjust_label(c, workdir)
        except ValueError:
            return MARK in c
        if MARK in c:
            return False
        step = st.Step(None, 1, label)
        cmd, wd = step.command_and_workdir
        return cmd == c and wd == workdir
    finally:
        st.Path = saved


class _RecClient:
    def __init__(self):
        self.sent = []
        self.call = self

    def amend_step(self, job_i, inp, env, out, vol, _rpc_timeout=None):
        self.sent.append((set(_s(x) for x in inp), set(_s(x) for x in out), set(_s(x) for x in vol)))
        return True


def amend_sequence(p1: str, p2: str, here_i: int) -> bool:
    """Two successive amend(inp=...) calls by a step: every path the step announced reaches the
    director (now or in an earlier call) as the root-relative path designating the same file --
    the client-side de-duplication never swallows a path that was not sent before."""
    import contextlib

    import stepup.core.api as api

    if M.isabs(p1) or M.isabs(p2) or p1 == "" or p2 == "" or p1.endswith("/") or p2.endswith("/"):
        return True
    undo, cwd = _setup(here_i)
    client = _RecClient()
    saved = (api.get_rpc_client, api.get_job_i, api.subs_env_vars, api._check_no_directories, api._check_inp_paths, api._AMEND_HISTORY)

    @contextlib.contextmanager
    def no_subs():
        yield lambda p: p

    api.get_rpc_client = lambda path=None: client
    api.get_job_i = lambda: 1
    api.subs_env_vars = no_subs
    api._check_no_directories = lambda paths, workdir=".": None
    api._check_inp_paths = lambda paths: ([], [])
    api._AMEND_HISTORY = {"inp": set(), "env": set(), "out": set(), "vol": set()}
    try:
        api.amend(inp=[p1])
        api.amend(inp=[p2])
        recorded = set()
        for inp, out, vol in client.sent:
            recorded |= {_denote(ROOT, t) for t in inp}
        return _denote(cwd, p1) in recorded and _denote(cwd, p2) in recorded
    finally:
        (api.get_rpc_client, api.get_job_i, api.subs_env_vars, api._check_no_directories, api._check_inp_paths, api._AMEND_HISTORY) = saved
        undo()
