"""CrossHair conditions for C11: target classification (tui._normalize_targets) and the need
threshold (Workflow.need_threshold), through the purepath shim."""

from __future__ import annotations

import stepup.core.tui  # noqa: F401  (imported before CrossHair starts tracing)
import stepup.core.workflow  # noqa: F401
from vf.shims import purepath as pp
from vf.shims.purepath import SPath, _s

M = pp.module
ROOT = "/r"


def normalize_target(raw: str, sub: int) -> bool:
    """A raw target is a directory target iff it ends in '/'; the result is the normalised
    root-relative path of the same file (directory targets keep their trailing '/')."""
    import stepup.core.tui as tui
    from stepup.core.exceptions import ToolError

    cwd = [ROOT, ROOT + "/s"][sub]
    undo = pp.install(pp.Env(root=ROOT, here=None, cwd=cwd))
    saved = (tui.Path, tui.os)
    tui.Path = SPath

    class OS:
        sep = "/"

    tui.os = OS
    try:
        try:
            targets, dirs = tui._normalize_targets([raw], SPath(ROOT))
        except ToolError:
            return raw == ""
        if raw == "":
            return False
        want = M.normpath(M.join(cwd, raw))
        if raw.endswith("/"):
            if targets or len(dirs) != 1:
                return False
            d = _s(dirs[0])
            return d.endswith("/") and M.normpath(M.join(ROOT, d)) == want
        if dirs or len(targets) != 1:
            return False
        t = _s(targets[0])
        return M.normpath(M.join(ROOT, t)) == want and t == M.normpath(t)
    finally:
        tui.Path, tui.os = saved
        undo()


def need_threshold(nt: int, nd: int) -> bool:
    """With targets (exact or directory) only steps needed above DEFAULT run; without, above OPTIONAL."""
    from stepup.core.enums import Need
    from stepup.core.workflow import Workflow

    w = object.__new__(Workflow)
    object.__setattr__(w, "targets", frozenset(f"t{k}" for k in range(nt)))
    object.__setattr__(w, "target_dirs", frozenset(f"d{k}/" for k in range(nd)))
    return w.need_threshold == (Need.DEFAULT if (nt > 0 or nd > 0) else Need.OPTIONAL)
